#!/bin/sh
# Offline setup: nothing to download or compile; verify the tools are there.
set -e
cd "$(dirname "$0")"
mkdir -p build evidence
java -version >/dev/null 2>&1
test -f /opt/veriftools/tla/tla2tools.jar
/venv/bin/python -c "import yaml, hypothesis" 
/venv/bin/python harness/manifest.py
echo setup ok
