SPECIFICATION Spec
CONSTANTS
  Threads = {t1, t2, t3}
  Args = {a1, a2}
INVARIANT CallsIsolated
CHECK_DEADLOCK FALSE
