---------------------------- MODULE MC_Seasoning ----------------------------
EXTENDS Seasoning

X == <<"s", "str", "x">>
Y == <<"s", "str", "y">>
One == <<"s", "int", "1">>
Nul == <<"s", "null", "">>
MQ == <<"m", <<"q", One>>>>
SQ == <<"q", <<One>>>>
Ids == { <<"s", "str", "a">>, <<"s", "str", "b">>, <<"s", "str", "">>, <<"s", "int", "1">>, <<"none">> }
Descs == { X, MQ, SQ, Nul, <<"none">> }
Prices == { One, <<"none">> }
Opt(name, v) == IF v = <<"none">> THEN <<>> ELSE <<name, v>>
ItemKV(id, d, p, first) ==
    IF first THEN Opt("id", id) \o Opt("desc", d) \o Opt("price", p)
    ELSE Opt("desc", d) \o Opt("price", p) \o Opt("id", id)
Items == { <<"m", ItemKV(id, d, p, f)>> : id \in Ids, d \in Descs, p \in Prices, f \in BOOLEAN }
ItemsSmall == { <<"m", ItemKV(id, d, p, TRUE)>> : id \in Ids \ {<<"s", "int", "1">>}, d \in Descs, p \in Prices }
Elems == Items \cup {X, SQ, Nul}
ElemsSmall == ItemsSmall \cup {X, SQ, Nul}

Wrap(attrval) == <<"m", <<"other", One, "items", attrval>>>>
SeqNodes(E) == { Wrap(<<"q", <<>>>>) } \cup { Wrap(<<"q", <<e>>>>) : e \in E }
                \cup { Wrap(<<"q", <<e1, e2>>>>) : e1 \in E, e2 \in E }
MapNodes(E) == { Wrap(<<"m", <<>>>>) } \cup { Wrap(<<"m", <<"a", e>>>>) : e \in E }
                \cup { Wrap(<<"m", <<"a", e1, "b", e2>>>>) : e1 \in E, e2 \in E }
OtherNodes == { <<"m", <<"other", One>>>>, Wrap(X), Wrap(One) }

NodesQ == SeqNodes(ElemsSmall) \cup MapNodes(ElemsSmall) \cup OtherNodes
NodesT == SeqNodes(Elems) \cup MapNodes(Elems) \cup OtherNodes
VA == {"", "desc", "price"}
=============================================================================
