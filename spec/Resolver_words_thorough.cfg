SPECIFICATION Spec
CONSTANTS
  MaxLen = 4
  UseAlphabet = TRUE
INVARIANT LoaderFollowsYaml12
CONSTRAINT Export
CHECK_DEADLOCK FALSE
