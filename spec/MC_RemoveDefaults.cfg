SPECIFICATION Spec
CONSTANTS Scalars <- Sc
INVARIANT Sanity
CONSTRAINT Export
CHECK_DEADLOCK FALSE
