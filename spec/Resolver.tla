----------------------------- MODULE Resolver -----------------------------
(***************************************************************************)
(* Implicit resolution of plain scalars: yaml.resolver.Resolver.resolve    *)
(* with the per-instance tables that yatiml's Loader.__patch_floats /      *)
(* __patch_bools install (yatiml/loader.py:218-290), against a hand-written*)
(* YAML 1.2 core-schema reference for float and bool.                      *)
(*                                                                         *)
(* The implementation side is not transcribed by hand: the harness reads   *)
(* the tables of a live Loader instance (and of the live Dumper class and  *)
(* of pristine yaml.resolver.Resolver), translates every regex into a DFA  *)
(* over a common partition of the code points, and this module reads the   *)
(* result (JSON) as constants.  Reading one character class is one step;   *)
(* the state is the product of all automata, which is finite, so TLC's     *)
(* exhaustive exploration covers strings of EVERY length.                  *)
(***************************************************************************)
EXTENDS Naturals, Sequences, FiniteSets, TLC, Json, IOUtils

CONSTANTS MaxLen,        \* 0 = unbounded (product mode, use with VIEW)
          UseAlphabet    \* TRUE: read only classes listed in T.alphabet

T == JsonDeserialize(IOEnv.RESOLVER_TABLES)
NC == T.nclasses
DFAs == T.dfas
ND == Len(DFAs)
Rep(c) == T.reps[c]
Alphabet == IF UseAlphabet THEN {T.alphabet[i] : i \in 1..Len(T.alphabet)}
            ELSE 1..NC

VARIABLES word,   \* the string read so far, as a sequence of class ids
          q,      \* q[i] = state of the DFA of regex i after reading word
          rf,     \* state of the reference YAML 1.2 float automaton
          rb      \* state of the reference YAML 1.2 bool automaton
vars == <<word, q, rf, rb>>

(* ---------------- reference: YAML 1.2 core schema float ----------------- *)
Digits == {"0", "1", "2", "3", "4", "5", "6", "7", "8", "9"}
RefFloatStep(s, ch) ==
    CASE s = "S" -> (IF ch \in {"-", "+"} THEN "G" ELSE IF ch \in Digits THEN "I"
                     ELSE IF ch = "." THEN "D" ELSE "dead")
      [] s = "G" -> (IF ch \in Digits THEN "I" ELSE IF ch = "." THEN "D" ELSE "dead")
      [] s = "I" -> (IF ch \in Digits THEN "I" ELSE IF ch = "." THEN "P"
                     ELSE IF ch \in {"e", "E"} THEN "E" ELSE "dead")
      [] s = "P" -> (IF ch \in Digits THEN "Q" ELSE IF ch \in {"e", "E"} THEN "E" ELSE "dead")
      [] s = "Q" -> (IF ch \in Digits THEN "Q" ELSE IF ch \in {"e", "E"} THEN "E" ELSE "dead")
      [] s = "D" -> (IF ch \in Digits THEN "R"
                     ELSE IF ch = "i" THEN "i1" ELSE IF ch = "I" THEN "I1"
                     ELSE IF ch = "n" THEN "n1" ELSE IF ch = "N" THEN "N1" ELSE "dead")
      [] s = "R" -> (IF ch \in Digits THEN "R" ELSE IF ch \in {"e", "E"} THEN "E" ELSE "dead")
      [] s = "E" -> (IF ch \in {"-", "+"} THEN "F" ELSE IF ch \in Digits THEN "X" ELSE "dead")
      [] s = "F" -> (IF ch \in Digits THEN "X" ELSE "dead")
      [] s = "X" -> (IF ch \in Digits THEN "X" ELSE "dead")
      [] s = "i1" -> (IF ch = "n" THEN "i2" ELSE "dead")
      [] s = "i2" -> (IF ch = "f" THEN "W" ELSE "dead")
      [] s = "I1" -> (IF ch = "n" THEN "I2a" ELSE IF ch = "N" THEN "I2b" ELSE "dead")
      [] s = "I2a" -> (IF ch = "f" THEN "W" ELSE "dead")
      [] s = "I2b" -> (IF ch = "F" THEN "W" ELSE "dead")
      [] s = "n1" -> (IF ch = "a" THEN "n2" ELSE "dead")
      [] s = "n2" -> (IF ch = "n" THEN "W" ELSE "dead")
      [] s = "N1" -> (IF ch = "a" THEN "N2a" ELSE IF ch = "A" THEN "N2b" ELSE "dead")
      [] s = "N2a" -> (IF ch = "N" THEN "W" ELSE "dead")
      [] s = "N2b" -> (IF ch = "N" THEN "W" ELSE "dead")
      [] OTHER -> "dead"
RefFloatAcc(s) == s \in {"P", "Q", "R", "X", "W"}

(* ---------------- reference: YAML 1.2 core schema bool ------------------ *)
BoolWords == {<<"t", "r", "u", "e">>, <<"T", "r", "u", "e">>, <<"T", "R", "U", "E">>,
              <<"f", "a", "l", "s", "e">>, <<"F", "a", "l", "s", "e">>,
              <<"F", "A", "L", "S", "E">>}
\* state = the prefix read so far if it is a prefix of a bool word, else dead
IsBoolPrefix(p) == \E w \in BoolWords : Len(p) <= Len(w) /\ SubSeq(w, 1, Len(p)) = p
RefBoolStep(s, ch) ==
    IF s = <<"dead">> THEN s
    ELSE LET p == Append(s, ch) IN IF IsBoolPrefix(p) THEN p ELSE <<"dead">>
RefBoolAcc(s) == s \in BoolWords

(* ---------------- implementation side: the extracted tables ------------- *)
Entries(tbl) ==
    IF word = <<>> THEN tbl.empty \o tbl.wild
    ELSE tbl.buckets[word[1]] \o tbl.wild

Acc(i) == DFAs[i].acc[q[i]]

RECURSIVE FirstMatch(_, _)
FirstMatch(es, i) ==
    IF i > Len(es) THEN "str"
    ELSE IF Acc(es[i][2]) THEN es[i][1] ELSE FirstMatch(es, i + 1)

\* the reference: PyYAML's own table for everything but float and bool
RECURSIVE FirstMatchRef(_, _)
FirstMatchRef(es, i) ==
    IF i > Len(es) THEN "str"
    ELSE LET tag == es[i][1] IN
         IF tag = "bool" THEN (IF RefBoolAcc(rb) THEN "bool" ELSE FirstMatchRef(es, i + 1))
         ELSE IF tag = "float" THEN (IF RefFloatAcc(rf) THEN "float" ELSE FirstMatchRef(es, i + 1))
         ELSE IF Acc(es[i][2]) THEN tag ELSE FirstMatchRef(es, i + 1)

LoaderTag == FirstMatch(Entries(T.tables.loader), 1)
DumperTag == FirstMatch(Entries(T.tables.dumper), 1)
PristineTag == FirstMatch(Entries(T.tables.pristine), 1)
\* float and bool may be tried in any bucket by the reference: they are
\* defined by the grammar, not by PyYAML's first-character index
RefTag ==
    IF RefBoolAcc(rb) THEN "bool"
    ELSE IF RefFloatAcc(rf) THEN "float"
    ELSE LET t == FirstMatchRef(Entries(T.tables.pristine), 1) IN t

(* ---------------- transitions ------------------------------------------- *)
Init ==
    /\ word = <<>>
    /\ q = [i \in 1..ND |-> DFAs[i].init]
    /\ rf = "S"
    /\ rb = <<>>

Read(c) ==
    /\ word' = Append(word, c)
    /\ q' = [i \in 1..ND |-> DFAs[i].delta[q[i]][c]]
    /\ rf' = RefFloatStep(rf, Rep(c))
    /\ rb' = RefBoolStep(rb, Rep(c))

Next == \E c \in Alphabet : (MaxLen = 0 \/ Len(word) < MaxLen) /\ Read(c)

Spec == Init /\ [][Next]_vars

\* the product state: what decides every later verdict
ProductView == <<q, rf, rb, IF word = <<>> THEN 0 ELSE word[1]>>

(* ---------------- properties -------------------------------------------- *)
\* The value of a plain scalar never ends in a line break (the scanner strips
\* it), so such words are outside the property's domain.  (`$` in Python also
\* matches before one final newline.)
InDomain == word = <<>> \/ word[Len(word)] # T.nl

\* C09: an untagged plain scalar is bool / float exactly by YAML 1.2, and
\* everything else is typed as PyYAML types it
LoaderFollowsYaml12 == InDomain => LoaderTag = RefTag

\* C05 (resolver part): whatever the dumper would write as a plain string
\* scalar is read back as a string by the loader
DumperPlainStringsStayStrings == InDomain /\ DumperTag = "str" => LoaderTag = "str"

\* C11 (resolver part): PyYAML's own table is what PyYAML ships
\* (checked by the harness against a fresh interpreter, listed for reference)

Export ==
    PrintT(<<"CASE", ToJson([word |-> word, loader |-> LoaderTag, ref |-> RefTag,
                             dumper |-> DumperTag, pristine |-> PristineTag,
                             rf |-> rf, dom |-> InDomain,
                             ok |-> LoaderFollowsYaml12])>>)
=============================================================================
