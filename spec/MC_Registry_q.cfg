SPECIFICATION Spec
CONSTANTS
  ClassSets <- CSQ
  LoadArgs <- LAQ
  DumpArgs <- DAQ
  MaxOps = 4
  MaxFns = 2
INVARIANT Isolation
PROPERTY BaseClassesUntouched
PROPERTY FunctionsImmutable
CONSTRAINT Export
CHECK_DEADLOCK FALSE
