---- MODULE MC_dbg ----
EXTENDS MC_LoadRef
DbgModels == {"contany"}
====
