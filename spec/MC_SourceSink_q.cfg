SPECIFICATION Spec
CONSTANTS
  Docs <- D
  Vals <- V
  Opts <- O
  Raises <- R
  MaxOps = 2
INVARIANT NoHandleLeak
INVARIANT SourcesAgree
INVARIANT SinksAgree
INVARIANT FileHoldsTheText
CONSTRAINT Export
CHECK_DEADLOCK FALSE
