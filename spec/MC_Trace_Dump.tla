---- MODULE MC_Trace_Dump ----
EXTENDS Trace_Dump
NoModels == {}
====
