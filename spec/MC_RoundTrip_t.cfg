SPECIFICATION RTSpec
CONSTANTS
  MaxNodes = 0
  Tier = "t"
  ModelIds <- QuickDump
  AllowAlias = FALSE
  AllowCycles = FALSE
  AllowEmpty = FALSE
  MaxObjs = 0
  MaxLen = 2
PROPERTY DumpIsPure
CONSTRAINT RTExport
CHECK_DEADLOCK FALSE
