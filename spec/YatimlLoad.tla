---------------------------- MODULE YatimlLoad ----------------------------
(***************************************************************************)
(* The load pipeline of yatiml as a state machine over a mutable node      *)
(* graph (yatiml/loader.py, recognizer.py, constructors.py, util.py).      *)
(*                                                                         *)
(*   compose  : the PyYAML composer builds the node graph (environment);   *)
(*              an alias is a second reference to the same node id.        *)
(*   process  : Loader.__process_node, one frame per node visit:           *)
(*              Recognise -> CallSavorize* -> Descend* -> Finish(retag)    *)
(*              mutating node tags / keys / children IN PLACE.             *)
(*   construct: PyYAML construction with yatiml's Constructor,             *)
(*              EnumConstructor, UserStringConstructor, PathConstructor.   *)
(*                                                                         *)
(* Class models, alphabets and the scalar-constructor table come from one  *)
(* catalogue (JSON) shared with the Python harness.  A second, declarative *)
(* definition of loading (RefLoad, on the alias-expanded, never-mutated    *)
(* document) is the reference the operational model is checked against.   *)
(***************************************************************************)
EXTENDS Naturals, Integers, Sequences, FiniteSets, TLC, Json, IOUtils

CONSTANTS MaxNodes,      \* bound on node occurrences (nodes + alias references);
                         \* 0 = the catalogue's per-model bound for Tier
          Tier,          \* "q" | "t": which per-model bound of the catalogue
          ModelIds,      \* set of catalogue model ids explored by this config
          AllowAlias,    \* compose may create aliases
          AllowCycles,   \* aliases may point at a collection still open
          AllowEmpty     \* the empty document is generated too

Cat == JsonDeserialize(IOEnv.YATIML_MODELS)

VARIABLES mi,        \* index of the class model in the catalogue
          dt,        \* document type
          heap,      \* node id -> [k, t, v, c]   (kind, tag, value, children)
          root,      \* id of the document root, 0 = empty document
          doc0,      \* the document as composed (frozen copy for export/reference)
          open,      \* compose: stack of collections being filled
          nalias,    \* compose: number of alias references made
          phase,     \* "compose" "process" "construct" "done" "failed"
          stack,     \* process: frames [n, t, pc, r, i, ch, slot]
          ret,       \* process: node id returned by the frame just popped
          log,       \* history: savorize calls and __init__ calls, in order
          res,       \* <<"NONE">> | <<"VAL", v>> | <<"ERR", classes, cites, keys>>
          visited,   \* <<node, expected type>> pairs whose processing has started
          shared     \* observation: a node was re-entered (alias) after it had been modified

vars == <<mi, dt, heap, root, doc0, open, nalias, phase, stack, ret, log, res, visited, shared>>

Mod == Cat.models[mi]
Range(s) == {s[i] : i \in DOMAIN s}
CoreTags == Range(Cat.coretags)

(* ------------------------------------------------------------------------ *)
(* class models                                                             *)
(* ------------------------------------------------------------------------ *)
ClassNames == {Mod.classes[i].name : i \in DOMAIN Mod.classes}
Cls(name) == Mod.classes[CHOOSE i \in DOMAIN Mod.classes : Mod.classes[i].name = name]
IsReg(name) == \E i \in DOMAIN Mod.reg : Mod.reg[i] = name
\* the tag is built from the class's Python __name__ (two classes may share it)
ClassTag(name) == "!" \o Cls(name).pyname
IsCore(tag) == tag \in CoreTags
TagClass(tag) == IF \E c \in ClassNames : IsReg(c) /\ ClassTag(c) = tag
                 THEN CHOOSE c \in ClassNames : IsReg(c) /\ ClassTag(c) = tag
                 ELSE ""
IsStringLike(name) == Cls(name).kind \in {"strlike", "userstring", "ystring"}
IsEnum(name) == Cls(name).kind = "enum"

\* transitive base classes (Python isinstance), registered or not
RECURSIVE Ancestors(_)
Ancestors(name) ==
    IF name \notin ClassNames THEN {}
    ELSE LET bs == Range(Cls(name).bases) IN
         bs \cup UNION {Ancestors(b) : b \in bs}
IsSubclass(c, d) == c = d \/ d \in Ancestors(c)

\* registered classes having `name` as a DIRECT base, in registration order
RegSubs(name) == SelectSeq(Mod.reg, LAMBDA c : name \in Range(Cls(c).bases))

TypeTag(T) ==
    CASE T[1] = "str" -> "str" [] T[1] = "int" -> "int" [] T[1] = "float" -> "float"
      [] T[1] = "bool" -> "bool" [] T[1] = "boolfix" -> "bool" [] T[1] = "null" -> "null"
      [] T[1] = "date" -> "timestamp" [] T[1] = "list" -> "seq" [] T[1] = "dict" -> "map"
      [] T[1] = "path" -> "!Path" [] T[1] = "class" -> ClassTag(T[2])
      [] OTHER -> "?"

IsScalarType(T) == T[1] \in {"str", "int", "float", "bool", "boolfix", "null", "date"}

(* ------------------------------------------------------------------------ *)
(* node graph                                                               *)
(* ------------------------------------------------------------------------ *)
Node(k, t, v, c) == [k |-> k, t |-> t, v |-> v, c |-> c]
NewId(h) == Len(h) + 1

\* positions (odd indices into c) of the keys of mapping n whose value is `name`
KeyPos(h, n, name) == {i \in DOMAIN h[n].c : i % 2 = 1 /\ h[h[n].c[i]].v = name
                                              /\ h[h[n].c[i]].k = "s"}
HasAttr(h, n, name) == h[n].k = "m" /\ KeyPos(h, n, name) # {}
Min(S) == CHOOSE x \in S : \A y \in S : x <= y
\* Node.get_attribute: exactly one match, else SeasoningError
AttrUnique(h, n, name) == Cardinality(KeyPos(h, n, name)) = 1
AttrVal(h, n, name) == h[n].c[Min(KeyPos(h, n, name)) + 1]

Implicit(val) ==
    LET S == {i \in DOMAIN Cat.implicit : Cat.implicit[i][1] = val} IN
    IF S = {} THEN "str" ELSE Cat.implicit[CHOOSE i \in S : TRUE][2]

\* util.strip_tags: scalars with a non-core tag are re-resolved, collections
\* are forced to seq / map, recursively.  `fuel` bounds the recursion: a cyclic
\* graph makes the real function recurse forever (RecursionError).
RECURSIVE StripTags(_, _, _)
RECURSIVE StripKids(_, _, _, _)
StripKids(h, kids, i, fuel) ==
    IF i > Len(kids) THEN h
    ELSE LET h2 == StripTags(h, kids[i], fuel) IN
         IF h2 = <<>> THEN <<>> ELSE StripKids(h2, kids, i + 1, fuel)
StripTags(h, n, fuel) ==
    IF fuel = 0 THEN <<>>                      \* diverged
    ELSE IF h[n].k = "s" THEN
        (IF IsCore(h[n].t) THEN h ELSE [h EXCEPT ![n].t = Implicit(h[n].v)])
    ELSE LET h1 == [h EXCEPT ![n].t = IF h[n].k = "q" THEN "seq" ELSE "map"] IN
         StripKids(h1, h1[n].c, 1, fuel - 1)
Fuel(h) == 2 * Len(h) + 2 * Len(Mod.classes) + 8

(* ------------------------------------------------------------------------ *)
(* recognition (yatiml/recognizer.py), threading the graph because the      *)
(* enum rule rewrites a bool tag to str in place                            *)
(* result: [ts: set of types, h: graph, ex: "" | exception class,           *)
(*          c: cited node ids, k: quoted key names]                         *)
(* ------------------------------------------------------------------------ *)
RR(ts, h, ex, c, k) == [ts |-> ts, h |-> h, ex |-> ex, c |-> c, k |-> k]
NoK == {}

RECURSIVE Rec(_, _, _, _)
RECURSIVE RecUnion(_, _, _, _, _, _, _, _)
RECURSIVE RecList(_, _, _, _, _, _)
RECURSIVE RecDict(_, _, _, _, _, _)
RECURSIVE RecClasses(_, _, _, _, _)
RECURSIVE RecSubs(_, _, _, _, _, _, _, _)
RECURSIVE RecAttrs(_, _, _, _, _)

\* the effect vocabulary of custom _yatiml_recognize functions
RecogEffect(h, n, cname, fuel) ==
    LET e == Cls(cname).recog
        T == <<"class", cname>>
        ok == RR({T}, h, "", {}, NoK)
        no == RR({}, h, "", {n}, NoK) IN
    CASE e[1] = "permissive" -> ok
      [] e[1] = "reject" -> no
      [] e[1] = "require_mapping" -> IF h[n].k = "m" THEN ok ELSE no
      [] e[1] = "require_scalar_str" -> IF h[n].k = "s" /\ h[n].t = "str" THEN ok ELSE no
      [] e[1] = "require_attr" ->
            IF h[n].k = "m" /\ HasAttr(h, n, e[2]) THEN ok ELSE no
      [] e[1] = "require_attr_type" ->
            IF ~(h[n].k = "m" /\ HasAttr(h, n, e[2])) THEN no
            ELSE LET r == Rec(h, AttrVal(h, n, e[2]), e[3], fuel - 1) IN
                 IF r.ex # "" THEN r
                 ELSE IF r.ts = {} THEN RR({}, r.h, "", {n}, NoK)
                 ELSE RR({T}, r.h, "", {}, NoK)
      [] e[1] = "require_value" ->
            \* UnknownNode.require_attribute_value: every matching str-tagged
            \* key must carry a scalar of that tag with that value
            LET ps == {i \in KeyPos(h, n, e[2]) : h[h[n].c[i]].t = "str"} IN
            IF h[n].k = "m" /\ ps # {} /\
               \A i \in ps : LET vn == h[h[n].c[i + 1]] IN
                             vn.k = "s" /\ vn.t = e[3] /\ vn.v = e[4]
            THEN ok ELSE no
      [] OTHER -> no

\* Recognizer.__recognize_user_class
RecClass(h, n, cname, fuel) ==
    LET c == Cls(cname)
        T == <<"class", cname>> IN
    IF c.hasrecog THEN RecogEffect(h, n, cname, fuel)
    ELSE IF c.kind = "enum" THEN
        (IF h[n].k = "s" /\ h[n].t \in {"str", "bool"}
         THEN RR({T}, h, "", {}, NoK)    \* recognition does not write (retag: Recognise)
         ELSE RR({}, h, "", {n}, NoK))
    ELSE IF IsStringLike(cname) THEN
        (IF h[n].k = "s" /\ h[n].t = "str" THEN RR({T}, h, "", {}, NoK)
         ELSE RR({}, h, "", {n}, NoK))
    ELSE IF h[n].k # "m" THEN RR({}, h, "", {n}, NoK)
    ELSE RecAttrs(h, n, cname, 1, fuel)

\* auto-recognition by constructor signature, attribute by attribute
RecAttrs(h, n, cname, i, fuel) ==
    LET ps == Cls(cname).params IN
    IF i > Len(ps) THEN RR({<<"class", cname>>}, h, "", {}, NoK)
    ELSE LET p == ps[i]
             name == IF HasAttr(h, n, p.name) THEN p.name
                     ELSE IF HasAttr(h, n, p.dname) THEN p.dname ELSE "" IN
         IF name = "" THEN
            (IF p.required THEN RR({}, h, "", {n}, {p.name})
             ELSE RecAttrs(h, n, cname, i + 1, fuel))
         ELSE IF ~AttrUnique(h, n, name) THEN
            RR({}, h, "", {n}, {name})          \* "Found more than one key"
         ELSE LET r == Rec(h, AttrVal(h, n, name), p.type, fuel - 1) IN
              IF r.ex # "" THEN r
              ELSE IF r.ts = {} THEN RR({}, r.h, "", r.c, r.k)
              ELSE RecAttrs(r.h, n, cname, i + 1, fuel)

\* Recognizer.__recognize_user_classes: registered direct subclasses first
RecSubs(h, n, subs, i, acc, cc, ck, fuel) ==
    IF i > Len(subs) THEN RR(acc, h, "", cc, ck)
    ELSE LET r == RecClasses(h, n, subs[i], FALSE, fuel - 1) IN
         IF r.ex # "" THEN r
         ELSE RecSubs(r.h, n, subs, i + 1, acc \cup r.ts,
                      IF r.ts = {} THEN cc \cup r.c ELSE cc,
                      IF r.ts = {} THEN ck \cup r.k ELSE ck, fuel)

RecClasses(h, n, cname, top, fuel) ==
    IF fuel <= 0 THEN RR({}, h, "Other:RecursionError", {}, NoK)
    ELSE
    LET s == RecSubs(h, n, RegSubs(cname), 1, {}, {}, NoK, fuel) IN
    IF s.ex # "" THEN s
    ELSE
    LET own == IF s.ts = {} /\ ~Cls(cname).abstract
               THEN RecClass(s.h, n, cname, fuel)
               ELSE RR({}, s.h, "", {}, NoK)
        tried == s.ts = {} /\ ~Cls(cname).abstract IN
    IF own.ex # "" THEN own
    ELSE
    LET ts == s.ts \cup own.ts
        h2 == own.h
        cc == s.c \cup (IF tried /\ own.ts = {} THEN own.c ELSE {})
        ck == s.k \cup (IF tried /\ own.ts = {} THEN own.k ELSE NoK)
        tag == h2[n].t
        tc == TagClass(tag) IN
    IF ts = {} THEN
        RR({}, h2, "", IF cc = {} /\ top THEN {n} ELSE cc, ck)
    ELSE IF Cardinality(ts) > 1 THEN
        (IF tc # "" /\ <<"class", tc>> \in ts THEN RR({<<"class", tc>>}, h2, "", {}, NoK)
         ELSE RR(ts, h2, "", IF cc = {} THEN {n} ELSE cc, ck))
    ELSE IF ~IsCore(tag) THEN
        (IF tc # "" /\ <<"class", tc>> \in ts THEN RR(ts, h2, "", {}, NoK)
         ELSE RR({}, h2, "", {n}, NoK))
    ELSE RR(ts, h2, "", {}, NoK)

RecUnion(h, n, ms, i, acc, cc, ck, fuel) ==
    IF i > Len(ms) THEN
        LET ts == IF <<"bool">> \in acc /\ <<"boolfix">> \in acc
                  THEN acc \ {<<"boolfix">>} ELSE acc IN
        IF ts = {} THEN RR(ts, h, "", cc, ck)
        ELSE IF Cardinality(ts) > 1 THEN RR(ts, h, "", IF cc = {} THEN {n} ELSE cc, ck)
        ELSE RR(ts, h, "", {}, NoK)
    ELSE LET r == Rec(h, n, ms[i], fuel - 1) IN
         IF r.ex # "" THEN r
         ELSE RecUnion(r.h, n, ms, i + 1, acc \cup r.ts,
                       IF r.ts = {} THEN cc \cup r.c ELSE cc,
                       IF r.ts = {} THEN ck \cup r.k ELSE ck, fuel)

RecList(h, n, T, i, x, fuel) ==
    IF i > Len(h[n].c) THEN RR({T}, h, "", {}, NoK)
    ELSE LET r == Rec(h, h[n].c[i], T[2], fuel - 1) IN
         IF r.ex # "" THEN r
         ELSE IF r.ts = {} THEN RR({}, r.h, "", r.c, r.k)
         ELSE IF Cardinality(r.ts) > 1 THEN
              RR({<<"list", t>> : t \in r.ts}, r.h, "", r.c, r.k)
         ELSE RecList(r.h, n, T, i + 1, x, fuel)

RecDict(h, n, T, i, x, fuel) ==
    IF i > Len(h[n].c) THEN RR({T}, h, "", {}, NoK)
    ELSE LET ET == IF i % 2 = 1 THEN T[2] ELSE T[3]
             r == Rec(h, h[n].c[i], ET, fuel - 1) IN
         IF r.ex # "" THEN r
         ELSE IF r.ts = {} THEN RR({}, r.h, "", r.c, r.k)
         ELSE IF Cardinality(r.ts) > 1 THEN
              RR({IF i % 2 = 1 THEN <<"dict", t, T[3]>> ELSE <<"dict", T[2], t>> : t \in r.ts},
                 r.h, "", r.c, r.k)
         ELSE RecDict(r.h, n, T, i + 1, x, fuel)

\* Recognizer.recognize: the dispatch chain, in the code's order
Rec(h, n, T, fuel) ==
    IF fuel <= 0 THEN RR({}, h, "Other:RecursionError", {}, NoK)
    ELSE IF IsScalarType(T) THEN
        (IF h[n].k = "s" /\ h[n].t = TypeTag(T) THEN RR({T}, h, "", {}, NoK)
         ELSE RR({}, h, "", {n}, NoK))
    ELSE IF T[1] = "path" THEN
        (IF h[n].k = "s" /\ h[n].t = "str" THEN RR({T}, h, "", {}, NoK)
         ELSE RR({}, h, "", {n}, NoK))
    ELSE IF T[1] = "union" THEN RecUnion(h, n, T[2], 1, {}, {}, NoK, fuel)
    ELSE IF T[1] = "list" THEN
        \* an explicit tag on a collection says that it is something else
        (IF h[n].k # "q" \/ h[n].t # "seq" THEN RR({}, h, "", {n}, NoK)
         ELSE RecList(h, n, T, 1, 0, fuel))
    ELSE IF T[1] = "dict" THEN
        (IF h[n].k # "m" \/ h[n].t # "map" THEN RR({}, h, "", {n}, NoK)
         ELSE RecDict(h, n, T, 1, 0, fuel))
    ELSE IF T[1] = "class" /\ T[2] \in ClassNames /\ IsReg(T[2]) THEN
        RecClasses(h, n, T[2], TRUE, fuel)
    ELSE IF T[1] = "any" THEN RR({T}, h, "", {}, NoK)
    ELSE RR({}, h, "RecErr", {}, NoK)        \* "Could not recognize for type"

(* ------------------------------------------------------------------------ *)
(* savorize effects (user hooks as environment steps with a fixed vocabulary)*)
(* result: [h, n (possibly a new node replacing n), ex]                     *)
(* ------------------------------------------------------------------------ *)
Undash(s) ==
    LET S == {i \in DOMAIN Cat.undash : Cat.undash[i][1] = s} IN
    IF S = {} THEN s ELSE Cat.undash[CHOOSE i \in S : TRUE][2]

RECURSIVE UndashKeys(_, _, _)
UndashKeys(h, kids, i) ==
    IF i > Len(kids) THEN h
    ELSE UndashKeys(IF h[kids[i]].k = "s"
                    THEN [h EXCEPT ![kids[i]].v = Undash(h[kids[i]].v)] ELSE h,
                    kids, i + 2)

\* Node.set_attribute(name, scalar): overwrite the first match or append
SetAttrScalar(h, n, name, tag, val) ==
    LET vid == NewId(h)
        h1 == Append(h, Node("s", tag, val, <<>>)) IN
    IF KeyPos(h, n, name) # {}
    THEN [h1 EXCEPT ![n].c[Min(KeyPos(h, n, name)) + 1] = vid]
    ELSE LET kid == vid + 1
             h2 == Append(h1, Node("s", "str", name, <<>>)) IN
         [h2 EXCEPT ![n].c = h[n].c \o <<kid, vid>>]

ER(h, n, ex) == [h |-> h, n |-> n, ex |-> ex]

RECURSIVE IndexFold(_, _, _, _)
\* kids: the key/value ids of the index mapping (read once, like the code's
\* loop over attr_node.yaml_node.value); the inner mappings are edited in place
IndexFold(h, kids, i, keyattr) ==
    IF i > Len(kids) THEN h
    ELSE LET kk == NewId(h)
             kc == kk + 1
             h1 == h \o <<Node("s", "str", keyattr, <<>>), h[kids[i]]>> IN
         IndexFold([h1 EXCEPT ![kids[i + 1]].c = @ \o <<kk, kc>>], kids, i + 2, keyattr)

ApplyEffect(h, n, e) ==
    CASE e[1] = "none" -> ER(h, n, "")
      [] e[1] = "raise_seasoning" -> ER(h, n, "Seasoning")
      [] e[1] = "rename" ->
            \* Node.rename_attribute: first key with that value, in place
            IF h[n].k = "m" /\ KeyPos(h, n, e[2]) # {}
            THEN ER([h EXCEPT ![h[n].c[Min(KeyPos(h, n, e[2]))]].v = e[3]], n, "")
            ELSE ER(h, n, "")
      [] e[1] = "dashes_to_unders" ->
            IF h[n].k = "m" THEN ER(UndashKeys(h, h[n].c, 1), n, "") ELSE ER(h, n, "")
      [] e[1] = "set_attr" ->
            IF h[n].k = "m" THEN ER(SetAttrScalar(h, n, e[2], e[3], e[4]), n, "")
            ELSE ER(h, n, "")
      [] e[1] = "tag_child" ->
            IF h[n].k = "m" /\ KeyPos(h, n, e[2]) # {}
            THEN ER([h EXCEPT ![AttrVal(h, n, e[2])].t = e[3]], n, "")
            ELSE ER(h, n, "")
      [] e[1] = "to_scalar" ->
            \* Node.set_value: a NEW scalar node; a class tag is kept
            ER(Append(h, Node("s", IF IsCore(h[n].t) THEN e[2] ELSE h[n].t, e[3], <<>>)),
               NewId(h), "")
      [] e[1] = "scalar_to_mapping" ->
            \* parsed-class recipe: make_mapping + set_attribute(attr, text)
            IF h[n].k = "s"
            THEN LET m == NewId(h)
                     v == m + 1
                     k == m + 2 IN
                 ER(h \o <<Node("m", "map", "", <<k, v>>),
                           Node("s", "str", h[n].v, <<>>),
                           Node("s", "str", e[2], <<>>)>>, m, "")
            ELSE ER(h, n, "")
      [] e[1] = "need_attr" ->
            \* a hook that fetches an attribute with Node.get_attribute, which
            \* raises SeasoningError unless the key occurs exactly once
            IF h[n].k = "m" /\ ~AttrUnique(h, n, e[2]) THEN ER(h, n, "Seasoning")
            ELSE ER(h, n, "")
      [] e[1] = "map_to_index" ->
            \* Node.map_attribute_to_index(attr, key_attribute): every inner
            \* mapping gets `key_attribute: <copy of its key node>` appended
            IF h[n].k # "m" \/ KeyPos(h, n, e[2]) = {} THEN ER(h, n, "")
            ELSE IF ~AttrUnique(h, n, e[2]) THEN ER(h, n, "Seasoning")
            ELSE LET av == AttrVal(h, n, e[2]) IN
                 IF h[av].k # "m" \/ \E i \in DOMAIN h[av].c : i % 2 = 0 /\ h[h[av].c[i]].k # "m"
                 THEN ER(h, n, "")
                 ELSE ER(IndexFold(h, h[av].c, 1, e[3]), n, "")
      [] OTHER -> ER(h, n, "")

\* Loader.__savorize order: registered direct bases first (recursively),
\* then the class itself if its own body defines the hook
\* A class reached along two inheritance paths (diamond) is savorized ONCE,
\* where it is reached first ("each called exactly once", C10): the raw
\* depth-first chain with later repetitions removed.
FirstOccurrences(s) ==
    LET F[i \in 0..Len(s)] ==
          IF i = 0 THEN <<>>
          ELSE IF \E j \in 1..Len(F[i - 1]) : F[i - 1][j] = s[i] THEN F[i - 1]
               ELSE Append(F[i - 1], s[i])
    IN F[Len(s)]
RECURSIVE SavChainRaw(_)
RECURSIVE SavChainBases(_, _)
SavChainBases(bs, i) ==
    IF i > Len(bs) THEN <<>>
    ELSE (IF bs[i] \in ClassNames /\ IsReg(bs[i]) THEN SavChainRaw(bs[i]) ELSE <<>>)
         \o SavChainBases(bs, i + 1)
SavChainRaw(cname) ==
    SavChainBases(Cls(cname).bases, 1) \o
    (IF Cls(cname).hassav THEN <<cname>> ELSE <<>>)
SavChain(cname) == FirstOccurrences(SavChainRaw(cname))

(* ------------------------------------------------------------------------ *)
(* construction (PyYAML SafeConstructor + yatiml constructors)              *)
(* state threaded: [h, memo, lg, errs, cites, keys]                         *)
(* ------------------------------------------------------------------------ *)
CtorLookup(tag, val) ==
    LET S == {i \in DOMAIN Cat.ctor : Cat.ctor[i][1] = tag /\ Cat.ctor[i][2] = val} IN
    IF S = {} THEN <<"ERR", "Other:NotInTable">> ELSE Cat.ctor[CHOOSE i \in S : TRUE][3]

NOVAL == <<"null">>          \* placeholder value of a failed construction
CS(h, memo, lg, errs, cites, keys) ==
    [h |-> h, memo |-> memo, lg |-> lg, errs |-> errs, cites |-> cites, keys |-> keys]
CFail(s, cls, c, k) == [s EXCEPT !.errs = @ \cup {cls}, !.cites = @ \cup c, !.keys = @ \cup k]
\* construction result: value, threaded state, success flag
CR(v, s, ok) == [v |-> v, s |-> s, ok |-> ok]
CBad(s, cls, c, k) == CR(NOVAL, CFail(s, cls, c, k), FALSE)

MemoHas(memo, n) == \E i \in DOMAIN memo : memo[i][1] = n
MemoGet(memo, n) == memo[CHOOSE i \in DOMAIN memo : memo[i][1] = n][2]

\* isinstance-based check of Constructor.__type_matches
RECURSIVE TypeMatches(_, _)
TypeMatches(v, T) ==
    CASE T[1] = "union" -> \E i \in DOMAIN T[2] : TypeMatches(v, T[2][i])
      [] T[1] = "list" -> v[1] = "list" /\ \A i \in DOMAIN v[2] : TypeMatches(v[2][i], T[2])
      [] T[1] = "dict" ->
            /\ v[1] \in {"dict", "odict"}
            /\ \A i \in DOMAIN v[2] :
                  IF i % 2 = 1
                  THEN (IF T[2][1] = "class"
                        THEN v[2][i][1] = "strlike" /\ IsSubclass(v[2][i][2], T[2][2])
                        ELSE v[2][i][1] = "str" \/
                             (v[2][i][1] = "strlike" /\ Cls(v[2][i][2]).kind = "strlike"))
                  ELSE TypeMatches(v[2][i], T[3])
      [] T[1] = "boolfix" -> v[1] = "bool"
      [] T[1] = "any" -> TRUE
      [] T[1] = "str" -> v[1] = "str" \/ (v[1] = "strlike" /\ Cls(v[2]).kind = "strlike")
      [] T[1] = "int" -> v[1] \in {"int", "bool"}
      [] T[1] = "float" -> v[1] = "float"
      [] T[1] = "bool" -> v[1] = "bool"
      [] T[1] = "null" -> v[1] = "null"
      [] T[1] = "date" -> v[1] \in {"date", "datetime"}
      [] T[1] = "path" -> v[1] = "path"
      [] T[1] = "class" ->
            /\ v[1] \in {"obj", "enum", "strlike"}
            /\ IsSubclass(v[2], T[2])
      [] OTHER -> FALSE

Hashable(v) == v[1] \notin {"list", "dict", "odict"}

\* ordered mapping as flattened pairs; a repeated key keeps its position
RECURSIVE PutPair(_, _, _, _)
PutPair(m, i, k, v) ==
    IF i > Len(m) THEN m \o <<k, v>>
    ELSE IF m[i] = k THEN [m EXCEPT ![i + 1] = v]
    ELSE PutPair(m, i + 2, k, v)

RECURSIVE MapGetIdx(_, _, _)
MapGetIdx(m, i, name) ==
    IF i > Len(m) THEN 0
    ELSE IF m[i] = <<"str", name>> THEN i ELSE MapGetIdx(m, i + 2, name)

ParamNames(cname) == {Cls(cname).params[i].name : i \in DOMAIN Cls(cname).params}
ParamOf(cname, name) ==
    Cls(cname).params[CHOOSE i \in DOMAIN Cls(cname).params : Cls(cname).params[i].name = name]

RECURSIVE Con(_, _, _, _)
RECURSIVE ConSeq(_, _, _, _, _, _)
RECURSIVE ConPairs(_, _, _, _, _, _)
RECURSIVE StripExtras(_, _, _, _, _)

ConSeq(kids, i, acc, s, prog, ok) ==
    IF i > Len(kids) THEN CR(acc, s, ok)
    ELSE LET r == Con(kids[i], s, prog, 0) IN
         ConSeq(kids, i + 1, IF ok /\ r.ok THEN Append(acc, r.v) ELSE acc,
                r.s, prog, ok /\ r.ok)

\* SafeConstructor.flatten_mapping: the pairs of a mapping after merge keys
\* (`<<`) have been resolved: merged pairs first, then the mapping's own;
\* <<0>> if the value of a merge key is not a mapping or a list of mappings
RECURSIVE FlatKids(_, _, _)
RECURSIVE FlatSeq(_, _, _, _)
BadMerge == <<0>>
FlatSeq(h, items, i, fuel) ==
    \* list of mappings: later mappings are merged first (submerge.reverse())
    IF i > Len(items) THEN <<>>
    ELSE IF h[items[i]].k # "m" THEN BadMerge
    ELSE LET rest == FlatSeq(h, items, i + 1, fuel)
             me == FlatKids(h, items[i], fuel - 1) IN
         IF rest = BadMerge \/ me = BadMerge THEN BadMerge ELSE rest \o me
FlatKids(h, n, fuel) ==
    IF fuel <= 0 THEN BadMerge
    ELSE
    LET kids == h[n].c
        RECURSIVE Go(_, _, _)
        Go(i, merged, own) ==
            IF i > Len(kids) THEN merged \o own
            ELSE IF h[kids[i]].k = "s" /\ h[kids[i]].t = "merge" THEN
                LET v == kids[i + 1]
                    m == IF h[v].k = "m" THEN FlatKids(h, v, fuel - 1)
                         ELSE IF h[v].k = "q" THEN FlatSeq(h, h[v].c, 1, fuel)
                         ELSE BadMerge IN
                IF m = BadMerge THEN BadMerge ELSE Go(i + 2, merged \o m, own)
            ELSE Go(i + 2, merged, own \o <<kids[i], kids[i + 1]>>)
    IN Go(1, <<>>, <<>>)
HasMergeKey(h, n) == \E i \in DOMAIN h[n].c : i % 2 = 1 /\ h[h[n].c[i]].k = "s" /\ h[h[n].c[i]].t = "merge"

\* SafeConstructor.construct_mapping
ConPairs(kids, i, acc, s, prog, ok) ==
    IF i > Len(kids) THEN CR(acc, s, ok)
    ELSE LET rk == Con(kids[i], s, prog, 0)
             rv == Con(kids[i + 1], rk.s, prog, 0) IN
         IF rk.ok /\ ~Hashable(rk.v)
         THEN ConPairs(kids, i + 2, acc, CFail(rv.s, "YamlErr", {kids[i]}, {}), prog, FALSE)
         ELSE ConPairs(kids, i + 2,
                       IF ok /\ rk.ok /\ rv.ok THEN PutPair(acc, 1, rk.v, rv.v) ELSE acc,
                       rv.s, prog, ok /\ rk.ok /\ rv.ok)

\* Constructor.__strip_extra_attributes: returns [h, bad]
StripExtras(h, kids, i, known, fuel) ==
    IF i > Len(kids) THEN [h |-> h, bad |-> 0]
    ELSE IF ~(h[kids[i]].k = "s" /\ h[kids[i]].t = "str") THEN [h |-> h, bad |-> 1]
    ELSE IF h[kids[i]].v \in known THEN StripExtras(h, kids, i + 2, known, fuel)
    ELSE LET h2 == StripTags(h, kids[i + 1], fuel) IN
         IF h2 = <<>> THEN [h |-> h, bad |-> 2]
         ELSE StripExtras(h2, kids, i + 2, known, fuel)

RECURSIVE FirstBadParam(_, _, _)
\* __check_no_missing_attributes: index of the first failing parameter, 0 if none
FirstBadParam(cname, m, i) ==
    LET ps == Cls(cname).params IN
    IF i > Len(ps) THEN 0
    ELSE LET j == MapGetIdx(m, 1, ps[i].name) IN
         IF ps[i].required /\ j = 0 THEN i
         ELSE IF j # 0 /\ ~TypeMatches(m[j + 1], ps[i].type) THEN i
         ELSE FirstBadParam(cname, m, i + 1)

RECURSIVE FirstBadKey(_, _, _)
\* __type_check_attributes: index in m of the first offending key, 0 if none
FirstBadKey(cname, m, i) ==
    IF i > Len(m) THEN 0
    ELSE IF m[i][1] # "str" THEN i
    ELSE IF m[i][2] \notin ParamNames(cname) /\ m[i][2] # "_yatiml_extra"
            /\ ~Cls(cname).extra THEN i
    ELSE IF m[i][2] \in ParamNames(cname) /\ ParamOf(cname, m[i][2]).annotated
            /\ ~TypeMatches(m[i + 1], ParamOf(cname, m[i][2]).type) THEN i
    ELSE FirstBadKey(cname, m, i + 2)

RECURSIVE SplitKw(_, _, _, _, _)
\* kwargs for __init__: known attributes in document order, the rest in _yatiml_extra
SplitKw(cname, m, i, main, extra) ==
    IF i > Len(m) THEN
        (IF Cls(cname).extra THEN main \o <<"_yatiml_extra", <<"odict", extra>>>> ELSE main)
    ELSE IF m[i][2] \in ParamNames(cname) \/ ~Cls(cname).extra
         THEN SplitKw(cname, m, i + 2, main \o <<m[i][2], m[i + 1]>>, extra)
         ELSE SplitKw(cname, m, i + 2, main, extra \o <<m[i], m[i + 1]>>)

\* does the keyword list hold that value for that name?
KwHas(kw, name, v) == \E i \in DOMAIN kw : i % 2 = 1 /\ kw[i] = name /\ kw[i + 1] = v

ConClass(n, cname, s, prog) ==
    LET c == Cls(cname)
        h == s.h IN
    IF c.kind = "enum" THEN
        (IF h[n].k = "s" /\ \E i \in DOMAIN c.members : c.members[i] = h[n].v
         THEN CR(<<"enum", cname, h[n].v>>, s, TRUE)
         ELSE CBad(s, "RecErr", {n}, {}))
    ELSE IF IsStringLike(cname) THEN
        (IF h[n].k = "s" /\ ~\E i \in DOMAIN c.rejects : c.rejects[i] = h[n].v
         THEN CR(<<"strlike", cname, h[n].v>>, s, TRUE)
         ELSE CBad(s, "RecErr", {n}, {}))
    ELSE IF h[n].k # "m" THEN CBad(s, "RecErr", {n}, {})
    ELSE
    LET se == StripExtras(h, h[n].c, 1, ParamNames(cname), Fuel(h)) IN
    IF se.bad = 1 THEN CBad(s, "RecErr", {n}, {})
    ELSE IF se.bad = 2 THEN CBad(s, "Other:RecursionError", {}, {})
    ELSE
    LET r == ConPairs(se.h[n].c, 1, <<>>, [s EXCEPT !.h = se.h], prog \cup {n}, TRUE) IN
    IF ~r.ok THEN CR(NOVAL, r.s, FALSE)
    ELSE
    LET m == r.v
        bp == FirstBadParam(cname, m, 1)
        bk == IF bp = 0 THEN FirstBadKey(cname, m, 1) ELSE 0 IN
    IF bp # 0 THEN
        CBad(r.s, "RecErr", {n},
             IF MapGetIdx(m, 1, c.params[bp].name) = 0 THEN {c.params[bp].name} ELSE {})
    ELSE IF bk # 0 THEN
        \* unknown key: the key node is cited and named; wrong type: the value node
        LET kn == IF m[bk][1] = "str" /\ KeyPos(r.s.h, n, m[bk][2]) # {}
                  THEN r.s.h[n].c[Min(KeyPos(r.s.h, n, m[bk][2]))] ELSE n
            unknown == m[bk][1] = "str" /\ m[bk][2] \notin ParamNames(cname) IN
        CBad(r.s, "RecErr", IF unknown THEN {kn} ELSE {n, kn},
             IF unknown THEN {m[bk][2]} ELSE {})
    ELSE LET kw == SplitKw(cname, m, 1, <<>>, <<>>)
             s2 == [r.s EXCEPT !.lg = Append(@, <<"init", cname, kw>>)] IN
         \* user __init__ raising anything is wrapped into RecognitionError
         IF c.initraises \/ (c.raisesif # <<>> /\ KwHas(kw, c.raisesif[1], c.raisesif[2]))
         THEN CBad(s2, "RecErr", {n}, {})
         ELSE CR(<<"obj", cname, kw>>, s2, TRUE)

Con(n, s, prog, dummy) ==
    IF MemoHas(s.memo, n) THEN CR(MemoGet(s.memo, n), s, TRUE)
    ELSE IF n \in prog THEN CBad(s, "YamlErr", {n}, {})   \* recursive node
    ELSE
    LET h == s.h
        tag == h[n].t
        r ==
          CASE tag = "seq" ->
                 IF h[n].k # "q" THEN CBad(s, "YamlErr", {n}, {})
                 ELSE LET q == ConSeq(h[n].c, 1, <<>>, s, prog \cup {n}, TRUE) IN
                      CR(<<"list", q.v>>, q.s, q.ok)
            [] tag = "map" ->
                 IF h[n].k # "m" THEN CBad(s, "YamlErr", {n}, {})
                 ELSE LET fk == IF HasMergeKey(h, n) THEN FlatKids(h, n, Fuel(h)) ELSE h[n].c IN
                      IF fk = BadMerge THEN CBad(s, "YamlErr", {n}, {})
                      ELSE LET q == ConPairs(fk, 1, <<>>, s, prog \cup {n}, TRUE) IN
                           CR(<<"dict", q.v>>, q.s, q.ok)
            [] tag \in {"str", "int", "float", "bool", "null", "timestamp"} ->
                 IF h[n].k # "s" THEN CBad(s, "YamlErr", {n}, {})
                 ELSE LET v == CtorLookup(tag, h[n].v) IN
                      \* yatiml wraps PyYAML's int/float/bool/timestamp constructors:
                      \* ValueError/KeyError/AttributeError become RecognitionError
                      IF v[1] = "ERR" THEN CBad(s, IF v[2] = "YamlErr" THEN "YamlErr" ELSE "RecErr", {n}, {})
                      ELSE CR(v, s, TRUE)
            [] tag = "!Path" ->
                 IF h[n].k = "s" THEN CR(<<"path", h[n].v>>, s, TRUE)
                 ELSE CBad(s, "RecErr", {n}, {})
            [] TagClass(tag) # "" -> ConClass(n, TagClass(tag), s, prog)
            [] OTHER -> CBad(s, "YamlErr", {n}, {})     \* no constructor
    IN IF ~r.ok THEN r
       ELSE CR(r.v, [r.s EXCEPT !.memo = Append(@, <<n, r.v>>)], TRUE)

(* ------------------------------------------------------------------------ *)
(* compose: the PyYAML composer as environment                              *)
(* ------------------------------------------------------------------------ *)
Occurrences == Len(heap) + nalias

ExpectKey == open # <<>> /\ heap[open[Len(open)]].k = "m"
                         /\ Len(heap[open[Len(open)]].c) % 2 = 0

KeyScalars == {<<"str", Mod.keys[i]>> : i \in DOMAIN Mod.keys} \cup Range(Mod.oddkeys)
ValScalars == Range(Mod.scalars) \cup
              {<<Mod.stags[i], Mod.scalars[j][2]>> :
                  i \in DOMAIN Mod.stags, j \in {k \in DOMAIN Mod.scalars : k <= 2}}

\* attach node id to the innermost open collection, or make it the root
Attach(h, id) ==
    IF open = <<>> THEN h
    ELSE [h EXCEPT ![open[Len(open)]].c = Append(@, id)]

NodeBound == IF MaxNodes > 0 THEN MaxNodes ELSE IF AllowAlias THEN Mod.an
             ELSE IF Tier = "q" THEN Mod.qn ELSE Mod.tn
CanAdd == phase = "compose" /\ Occurrences < NodeBound /\ (open # <<>> \/ root = 0)
                            /\ ~(open = <<>> /\ Len(heap) > 0)

\* per-model restrictions of the generator (catalogue): kind of the root,
\* distinct keys, which kinds may be aliased, cycles
RootOk(kind) == open # <<>> \/ Mod.rootk = "" \/ Mod.rootk = kind
KeysOfTop == {heap[heap[open[Len(open)]].c[i]].v :
                 i \in {j \in DOMAIN heap[open[Len(open)]].c : j % 2 = 1}}

ComposeScalar ==
    /\ CanAdd /\ RootOk("s")
    /\ \E sc \in (IF ExpectKey THEN KeyScalars ELSE ValScalars) :
         LET id == NewId(heap) IN
         /\ (ExpectKey /\ Mod.nodup) => sc[2] \notin KeysOfTop
         /\ heap' = Attach(Append(heap, Node("s", sc[1], sc[2], <<>>)), id)
         /\ root' = IF open = <<>> THEN id ELSE root
    /\ UNCHANGED <<mi, dt, doc0, open, nalias, phase, stack, ret, log, res, visited, shared>>

ComposeOpen ==
    \* a collection in key position (`? [a] : v`) only for the class models that
    \* ask for it (ckeys); elsewhere collections reach key position as aliases
    /\ CanAdd /\ (~ExpectKey \/ Mod.ckeys)
    /\ \E kt \in {<<"q", Mod.qtags[i]>> : i \in DOMAIN Mod.qtags} \cup
                 {<<"m", Mod.mtags[i]>> : i \in DOMAIN Mod.mtags} :
         LET id == NewId(heap) IN
         /\ RootOk(kt[1])
         /\ heap' = Attach(Append(heap, Node(kt[1], kt[2], "", <<>>)), id)
         /\ root' = IF open = <<>> THEN id ELSE root
         /\ open' = Append(open, id)
    /\ UNCHANGED <<mi, dt, doc0, nalias, phase, stack, ret, log, res, visited, shared>>

ComposeClose ==
    /\ phase = "compose" /\ open # <<>>
    /\ LET top == heap[open[Len(open)]] IN top.k = "m" => Len(top.c) % 2 = 0
    /\ open' = SubSeq(open, 1, Len(open) - 1)
    /\ UNCHANGED <<mi, dt, heap, root, doc0, nalias, phase, stack, ret, log, res, visited, shared>>

ComposeAlias ==
    \* an alias may also stand in key position: `&a {*a : 1}` is a cycle
    \* through a mapping key
    /\ AllowAlias /\ CanAdd /\ open # <<>> /\ (~ExpectKey \/ (AllowCycles /\ Mod.cyc))
    /\ \E id \in DOMAIN heap :
         /\ (AllowCycles /\ Mod.cyc) \/ id \notin Range(open)
         /\ heap[id].k \in Range(Mod.aliask)
         \* in key position only collections are aliased (scalar keys come from
         \* the key alphabet)
         /\ ExpectKey => heap[id].k # "s"
         /\ heap' = Attach(heap, id)
    /\ nalias' = nalias + 1
    /\ UNCHANGED <<mi, dt, root, doc0, open, phase, stack, ret, log, res, visited, shared>>

Frame(n, t, slot) == [n |-> n, t |-> t, pc |-> "rec", r |-> <<"none">>, i |-> 1,
                      ch |-> <<>>, slot |-> slot]

\* Loader.__check_not_recursive: does a node (indirectly) contain itself?
RECURSIVE Cyclic(_, _, _)
Cyclic(h, n, path) ==
    \/ n \in path
    \/ \E i \in DOMAIN h[n].c : Cyclic(h, h[n].c[i], path \cup {n})

RECURSIVE CycleNode(_, _, _)
\* the alias occurrence at which the cycle closes (cited in the message)
CycleNode(h, n, path) ==
    IF n \in path THEN n
    ELSE LET S == {i \in DOMAIN h[n].c : Cyclic(h, h[n].c[i], path \cup {n})} IN
         CycleNode(h, h[n].c[Min(S)], path \cup {n})

ComposeDone ==
    /\ phase = "compose" /\ open = <<>> /\ root # 0
    /\ doc0' = [h |-> heap, r |-> root]
    /\ IF Cyclic(heap, root, {})
       THEN /\ phase' = "failed"
            /\ res' = <<"ERR", {"RecErr"}, {CycleNode(heap, root, {})}, {}>>
            /\ UNCHANGED stack
       ELSE /\ phase' = "process"
            /\ stack' = <<Frame(root, dt, 0)>>
            /\ UNCHANGED res
    /\ UNCHANGED <<mi, dt, heap, root, open, nalias, ret, log, visited, shared>>

\* The empty document is processed as the null scalar it denotes
\* (Loader.get_single_node)
ComposeEmpty ==
    /\ AllowEmpty /\ phase = "compose" /\ Len(heap) = 0 /\ root = 0
    /\ doc0' = [h |-> heap, r |-> 0]
    /\ heap' = <<Node("s", "null", "", <<>>)>>
    /\ root' = 1
    /\ phase' = "process"
    /\ stack' = <<Frame(1, dt, 0)>>
    /\ UNCHANGED <<mi, dt, open, nalias, ret, log, res, visited, shared>>

(* ------------------------------------------------------------------------ *)
(* process: Loader.__process_node with an explicit stack                    *)
(* ------------------------------------------------------------------------ *)
Top == stack[Len(stack)]
SetTopF(f) == [stack EXCEPT ![Len(stack)] = f]

Fail(classes, cites, keys) ==
    /\ phase' = "failed"
    /\ res' = <<"ERR", classes, cites, keys>>
    /\ stack' = <<>>

\* how often is node n referenced, and is it the key of some mapping?
Refs(h, n) == Cardinality({<<m, i>> \in (DOMAIN h) \X (1..(2 * Len(h) + 2)) :
                              i \in DOMAIN h[m].c /\ h[m].c[i] = n})
IsKeySomewhere(h, n) == \E m \in DOMAIN h : h[m].k = "m" /\
                            \E i \in DOMAIN h[m].c : i % 2 = 1 /\ h[m].c[i] = n

\* has this node been changed since it was composed?  (alias revisits)
Modified(n) == n <= Len(doc0.h) /\ heap[n] # doc0.h[n]
\* ... in a way a second visit cannot notice: only the tag of a mapping was
\* set to the tag of the plain class it was loaded as (the tag check of the
\* recogniser accepts that), keys untouched
Benign(n) ==
    /\ n <= Len(doc0.h)
    /\ heap[n].k = doc0.h[n].k /\ heap[n].v = doc0.h[n].v /\ heap[n].c = doc0.h[n].c
    /\ \/ heap[n].t = doc0.h[n].t
       \/ /\ heap[n].k = "m" /\ TagClass(heap[n].t) # ""
          /\ Cls(TagClass(heap[n].t)).kind = "plain" /\ IsCore(doc0.h[n].t)
    /\ heap[n].k = "m" =>
          \A i \in DOMAIN heap[n].c : i % 2 = 1 =>
              heap[n].c[i] <= Len(doc0.h) /\ heap[heap[n].c[i]] = doc0.h[heap[n].c[i]]
\* F7 classifier: a node is entered again (through an alias) with another
\* expected type, or after it was rewritten in a way the visit can notice
HarmfulRevisit(n, T) ==
    \E p \in visited : p[1] = n /\ (p[2] # T \/ (Modified(n) /\ ~Benign(n)))

Recognise ==
    /\ phase = "process" /\ stack # <<>> /\ Top.pc = "rec"
    /\ LET f == Top
           r == Rec(heap, f.n, f.t, Fuel(heap)) IN
       /\ shared' = (shared \/ HarmfulRevisit(f.n, f.t))
       /\ visited' = visited \cup {<<f.n, f.t>>}
       /\ IF r.ex # "" THEN
              /\ Fail({r.ex}, r.c, r.k) /\ heap' = r.h
              /\ UNCHANGED <<ret, log>>
          ELSE IF Cardinality(r.ts) # 1 THEN
              /\ Fail({"RecErr"}, r.c, r.k) /\ heap' = r.h
              /\ UNCHANGED <<ret, log>>
          ELSE LET R == CHOOSE t \in r.ts : TRUE IN
              \* a boolean-looking enum member becomes a string once the node is
              \* known to be an enum (loader.py, before savorize)
              /\ heap' = IF R[1] = "class" /\ IsEnum(R[2]) /\ r.h[f.n].t = "bool"
                         THEN [r.h EXCEPT ![f.n].t = "str"] ELSE r.h
              /\ stack' = SetTopF([f EXCEPT !.r = R,
                                   !.pc = IF R[1] = "class" THEN "sav" ELSE "desc",
                                   !.ch = IF R[1] = "class" THEN SavChain(R[2]) ELSE <<>>])
              /\ UNCHANGED <<phase, res, ret, log>>
    /\ UNCHANGED <<mi, dt, root, doc0, open, nalias>>

CallSavorize ==
    /\ phase = "process" /\ stack # <<>> /\ Top.pc = "sav" /\ Top.ch # <<>>
    /\ LET f == Top
           c == Head(f.ch)
           e == ApplyEffect(heap, f.n, Cls(c).sav) IN
       /\ log' = Append(log, <<"sav", c>>)
       /\ IF e.ex = "Seasoning" THEN
              \* SeasoningError is caught in __process_node
              /\ Fail({"RecErr"}, {f.n}, {}) /\ heap' = e.h /\ UNCHANGED ret
          ELSE
              /\ heap' = e.h
              /\ stack' = SetTopF([f EXCEPT !.n = e.n, !.ch = Tail(f.ch)])
              /\ UNCHANGED <<phase, res, ret>>
       \* F7 classifier: the hook edited, in place, a node referenced twice
       /\ shared' = (shared \/ \E i \in DOMAIN heap : e.h[i] # heap[i] /\ Refs(heap, i) > 1)
    /\ UNCHANGED <<mi, dt, root, doc0, open, nalias, visited>>

SavorizeDone ==
    /\ phase = "process" /\ stack # <<>> /\ Top.pc = "sav" /\ Top.ch = <<>>
    /\ stack' = SetTopF([Top EXCEPT !.pc = "desc"])
    /\ UNCHANGED <<mi, dt, heap, root, doc0, open, nalias, phase, ret, log, res, visited, shared>>

\* which children does __process_node recurse into, with which expected types
\* <<child position in c, type>> for the i-th step; <<0>> when finished
PlainClass(R) == R[1] = "class" /\ ~IsEnum(R[2]) /\ ~IsStringLike(R[2])

RECURSIVE NextAttr(_, _, _)
\* next parameter index >= i whose (underscore) name is present
NextAttr(n, cname, i) ==
    IF i > Len(Cls(cname).params) THEN 0
    ELSE IF HasAttr(heap, n, Cls(cname).params[i].name) THEN i
    ELSE NextAttr(n, cname, i + 1)

Descend ==
    /\ phase = "process" /\ stack # <<>> /\ Top.pc = "desc"
    /\ LET f == Top
           R == f.r
           nd == heap[f.n] IN
       IF R[1] = "list" \/ R[1] = "dict" THEN
           IF nd.t # TypeTag(R) THEN
               \* "Expected ... here": explicit non-seq/map tag on a collection
               /\ Fail({"RecErr"}, {f.n}, {}) /\ UNCHANGED <<heap, ret, log>>
           ELSE IF f.i > Len(nd.c) THEN
               /\ stack' = SetTopF([f EXCEPT !.pc = "fin"])
               /\ UNCHANGED <<heap, phase, res, ret, log>>
           ELSE
               /\ stack' = Append(SetTopF([f EXCEPT !.pc = "wait"]),
                                  Frame(nd.c[f.i],
                                        IF R[1] = "list" THEN R[2]
                                        ELSE IF f.i % 2 = 1 THEN R[2] ELSE R[3],
                                        f.i))
               /\ UNCHANGED <<heap, phase, res, ret, log>>
       ELSE IF PlainClass(R) /\ nd.k = "m" THEN
           LET j == NextAttr(f.n, R[2], f.i) IN
           IF j = 0 THEN
               /\ stack' = SetTopF([f EXCEPT !.pc = "fin"])
               /\ UNCHANGED <<heap, phase, res, ret, log>>
           ELSE LET p == Cls(R[2]).params[j] IN
               IF ~AttrUnique(heap, f.n, p.name) THEN
                   \* SeasoningError of get_attribute is turned into RecognitionError
                   /\ Fail({"RecErr"}, {f.n}, {p.name})
                   /\ UNCHANGED <<heap, ret, log>>
               ELSE
                   /\ stack' = Append(SetTopF([f EXCEPT !.pc = "wait", !.i = j]),
                                      Frame(AttrVal(heap, f.n, p.name), p.type,
                                            Min(KeyPos(heap, f.n, p.name)) + 1))
                   /\ UNCHANGED <<heap, phase, res, ret, log>>
       \* a non-mapping node recognised as a plain class (custom recogniser or
       \* node-replacing savorize) is not descended into; the Constructor
       \* rejects it later
       ELSE
           /\ stack' = SetTopF([f EXCEPT !.pc = "fin"])
           /\ UNCHANGED <<heap, phase, res, ret, log>>
    /\ UNCHANGED <<mi, dt, root, doc0, open, nalias, visited, shared>>

\* the child frame has returned node id `ret`: write it back into the parent
Resume ==
    /\ phase = "process" /\ stack # <<>> /\ Top.pc = "wait" /\ ret # <<0, 0>>
    /\ LET f == Top IN
       /\ heap' = [heap EXCEPT ![f.n].c[ret[2]] = ret[1]]
       /\ stack' = SetTopF([f EXCEPT !.pc = "desc", !.i = f.i + 1])
    /\ ret' = <<0, 0>>
    /\ UNCHANGED <<mi, dt, root, doc0, open, nalias, phase, log, res, visited, shared>>

Finish ==
    /\ phase = "process" /\ stack # <<>> /\ Top.pc = "fin"
    /\ LET f == Top
           h2 == IF f.r[1] = "any" THEN StripTags(heap, f.n, Fuel(heap))
                 ELSE [heap EXCEPT ![f.n].t = TypeTag(f.r)] IN
       IF h2 = <<>> THEN
           /\ Fail({"Other:RecursionError"}, {}, {}) /\ UNCHANGED <<heap, ret, root, shared>>
       ELSE
           /\ heap' = h2
           \* F7 classifier: stripping the tags below an Any position rewrote a
           \* node that was processed before as something else (through an alias)
           \* ... or this visit rewrites a node that is referenced from a second
           \* place (a key of a class mapping, somewhere below an Any position:
           \* places that are never visited, so no revisit would notice)
           /\ shared' = (shared \/ (\E p \in visited : p[1] # f.n /\ h2[p[1]] # heap[p[1]])
                                \/ (h2[f.n] # heap[f.n] /\ Refs(heap, f.n) > 1))
           /\ stack' = SubSeq(stack, 1, Len(stack) - 1)
           /\ IF Len(stack) = 1
              THEN /\ root' = f.n /\ ret' = <<0, 0>> /\ phase' = "construct"
              ELSE /\ ret' = <<f.n, f.slot>> /\ UNCHANGED <<root, phase>>
           /\ UNCHANGED res
    /\ UNCHANGED <<mi, dt, doc0, open, nalias, log, visited>>

Construct ==
    /\ phase = "construct"
    /\ LET r == Con(root, CS(heap, <<>>, <<>>, {}, {}, {}), {}, 0) IN
       /\ heap' = r.s.h
       /\ log' = log \o r.s.lg
       /\ IF r.ok
          THEN /\ phase' = "done" /\ res' = <<"VAL", r.v>>
          ELSE /\ phase' = "failed" /\ res' = <<"ERR", r.s.errs, r.s.cites, r.s.keys>>
       \* F7 classifier: stripping the tags below an extra attribute rewrote a
       \* processed node (reachable from there only through an alias)
       /\ shared' = (shared \/ \E p \in visited : r.s.h[p[1]] # heap[p[1]])
    /\ UNCHANGED <<mi, dt, root, doc0, open, nalias, stack, ret, visited>>

(* ------------------------------------------------------------------------ *)
ModelIdx == {i \in DOMAIN Cat.models : Cat.models[i].id \in ModelIds}

Init ==
    /\ mi \in ModelIdx
    /\ dt \in Range(Cat.models[mi].doctypes)
    /\ heap = <<>> /\ root = 0 /\ doc0 = [h |-> <<>>, r |-> 0]
    /\ open = <<>> /\ nalias = 0
    /\ phase = "compose"
    /\ stack = <<>> /\ ret = <<0, 0>>
    /\ log = <<>> /\ res = <<"NONE">>
    /\ visited = {} /\ shared = FALSE

Next ==
    \/ ComposeScalar \/ ComposeOpen \/ ComposeClose \/ ComposeAlias
    \/ ComposeDone \/ ComposeEmpty
    \/ Recognise \/ CallSavorize \/ SavorizeDone \/ Descend \/ Resume \/ Finish
    \/ Construct

Spec == Init /\ [][Next]_vars

Terminal == phase \in {"done", "failed"}
=============================================================================
