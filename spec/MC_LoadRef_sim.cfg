SPECIFICATION Spec
CONSTANTS
  MaxNodes = 12
  Tier = "q"
  ModelIds <- AllModels
  AllowAlias = FALSE
  AllowCycles = FALSE
  AllowEmpty = TRUE
INVARIANT TypeOK
INVARIANT StackDiscipline
CONSTRAINT Export
CHECK_DEADLOCK FALSE
