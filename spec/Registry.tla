------------------------------ MODULE Registry ------------------------------
(***************************************************************************)
(* Creation and use of load / dump functions and the class-level           *)
(* registries of PyYAML they are built on (yatiml/loader.py:424-482,       *)
(* dumper.py:165-533; yaml.add_constructor / add_representer /             *)
(* add_implicit_resolver copy the inherited table on first write).         *)
(*                                                                         *)
(*   own[c]  : for each loader / dumper class, which tables it owns        *)
(*             ("inherit" until first written), and what it added          *)
(*   fns     : the functions created so far [kind, classes, cls]           *)
(*   hist    : operations and results (observation)                        *)
(* The result of a call is Sem(kind, classes, argument): an uninterpreted  *)
(* function of the function's own classes and the argument ONLY - there is *)
(* no other state a call could read.  The binding pins Sem by running each *)
(* distinct (classes, argument) once in a fresh interpreter and compares   *)
(* every call of every history with it, and projects the real registries   *)
(* after every operation.                                                  *)
(***************************************************************************)
EXTENDS Naturals, Sequences, FiniteSets, TLC, Json

CONSTANTS ClassSets,   \* sequences of user class ids a function may be created for
          LoadArgs,    \* argument ids for load calls (valid and invalid documents)
          DumpArgs,    \* argument ids for dump calls
          MaxOps,
          MaxFns

VARIABLES own, fns, hist
vars == <<own, fns, hist>>

Kinds == {"load", "dumps", "dump", "dumps_json", "dump_json"}
Base == {"SafeLoader", "Loader", "SafeDumper", "Dumper"}
FnIds == <<"f1", "f2", "f3", "f4">>

Inherit == [ctors |-> "inherit", reprs |-> "inherit", resolvers |-> "inherit",
            added |-> {}, regclasses |-> <<>>]

\* the state after `import yatiml`: Loader wraps four scalar constructors,
\* Dumper adds a float resolver and three representers
AfterImport ==
    [c \in Base |->
        CASE c = "SafeLoader" -> [Inherit EXCEPT !.ctors = "own", !.resolvers = "own"]
          [] c = "SafeDumper" -> [Inherit EXCEPT !.reprs = "own", !.resolvers = "own"]
          [] c = "Loader" -> [Inherit EXCEPT !.ctors = "own"]
          [] c = "Dumper" -> [Inherit EXCEPT !.reprs = "own", !.resolvers = "own",
                                             !.added = {"OrderedDict", "PosixPath", "WindowsPath"}]]

TagOf(cls) == cls       \* class ids with the same NAME map to the same tag in the harness

CanOp == Len(hist) < MaxOps

Create(kind, cs) ==
    /\ CanOp /\ Len(fns) < MaxFns
    /\ LET id == FnIds[Len(fns) + 1]
           f == [kind |-> kind, classes |-> cs]
           \* load_function: add_constructor('!Path') + one per class: owns ctors
           \* dumps/dump: add_representer per class: owns reprs only if cs # <<>>
           \* *_json: add_representer(PosixPath, WindowsPath) always: owns reprs
           o == CASE kind = "load" ->
                       \* load_function() without classes registers its private
                       \* placeholder class _AnyYAML (harmless: the document type is Any)
                       [Inherit EXCEPT !.ctors = "own",
                                       !.added = {"!Path"} \cup {cs[i] : i \in DOMAIN cs}
                                                 \cup (IF cs = <<>> THEN {"_AnyYAML"} ELSE {}),
                                       !.regclasses = IF cs = <<>> THEN <<"_AnyYAML">> ELSE cs]
                  [] kind \in {"dumps", "dump"} ->
                       [Inherit EXCEPT !.reprs = IF cs = <<>> THEN "inherit" ELSE "own",
                                       !.added = {cs[i] : i \in DOMAIN cs}]
                  [] OTHER ->
                       [Inherit EXCEPT !.reprs = "own",
                                       !.added = {"PosixPath", "WindowsPath"} \cup {cs[i] : i \in DOMAIN cs}]
       IN /\ fns' = Append(fns, f)
          /\ own' = [c \in DOMAIN own \cup {id} |-> IF c = id THEN o ELSE own[c]]
          /\ hist' = Append(hist, [op |-> "create", kind |-> kind, classes |-> cs, f |-> Len(fns) + 1,
                                   arg |-> "", par |-> FALSE])

Call(f, arg, par) ==
    /\ CanOp
    /\ f \in DOMAIN fns
    /\ arg \in (IF fns[f].kind = "load" THEN LoadArgs ELSE DumpArgs)
    \* a call reads fns[f].classes and arg, and writes nothing
    /\ hist' = Append(hist, [op |-> "call", kind |-> fns[f].kind, classes |-> fns[f].classes,
                             f |-> f, arg |-> arg, par |-> par])
    /\ UNCHANGED <<own, fns>>

\* the untouched-PyYAML probes
Probe ==
    /\ CanOp
    /\ hist' = Append(hist, [op |-> "probe", kind |-> "", classes |-> <<>>, f |-> 0, arg |-> "",
                             par |-> FALSE])
    /\ UNCHANGED <<own, fns>>

Init ==
    /\ own = AfterImport
    /\ fns = <<>>
    /\ hist = <<>>

Next ==
    \/ \E k \in Kinds, cs \in ClassSets : Create(k, cs)
    \/ \E f \in 1..MaxFns, a \in LoadArgs \cup DumpArgs, p \in BOOLEAN : Call(f, a, p)
    \/ Probe

Spec == Init /\ [][Next]_vars

(* ---------------- properties -------------------------------------------- *)
\* creating and using yatiml functions never writes PyYAML's (or yatiml's
\* base) classes
BaseClassesUntouched == [][\A c \in Base : own'[c] = own[c]]_vars

\* a function's tables are fixed at creation
FunctionsImmutable == [][\A f \in DOMAIN fns : fns'[f] = fns[f] /\ own'[FnIds[f]] = own[FnIds[f]]]_vars

\* what one function registered is unknown to every other class:
\* every class only ever holds what was added for it
Isolation ==
    \A f \in DOMAIN fns :
        own[FnIds[f]].added \subseteq {"!Path", "PosixPath", "WindowsPath", "_AnyYAML"} \cup
                                {fns[f].classes[i] : i \in DOMAIN fns[f].classes}

Export ==
    Len(hist) = MaxOps => PrintT(<<"CASE", ToJson([hist |-> hist, own |-> own])>>)
=============================================================================
