----------------------------- MODULE SourceSink -----------------------------
(***************************************************************************)
(* LoadFunction.__call__ / Dump*Function.__call__ (yatiml/loader.py:       *)
(* 457-480, dumper.py:315-334,506-531): dispatch on the kind of source or  *)
(* sink.  Every kind reduces to the same character sequence handed to the  *)
(* load pipeline, resp. the same text produced by the dump pipeline with   *)
(* the same options; files opened by yatiml are closed again on the normal *)
(* and on the error path; streams handed in by the caller are left open.   *)
(*                                                                         *)
(*   fs      : path -> content ("" = empty / absent)                       *)
(*   handles : handle id -> [owner, path, state]                           *)
(*   out     : what was observed: results of loads, text written to streams*)
(* Load(d) / Dumps(v, o) are uninterpreted: the load and dump pipelines    *)
(* (YatimlLoad, RoundTrip, JsonEmitter) define them; what matters here is  *)
(* that every kind calls THE SAME one.                                     *)
(***************************************************************************)
EXTENDS Naturals, Sequences, FiniteSets, TLC, Json

CONSTANTS Docs,      \* document ids (valid and invalid ones)
          Vals,      \* value ids (incl. ones whose dump raises)
          Opts,      \* option ids (indent / ensure_ascii combinations)
          Raises,    \* value ids whose dump raises
          MaxOps

VARIABLES fs, handles, hist, pend
vars == <<fs, handles, hist, pend>>

Paths == {"p1", "p2"}
Load(d) == <<"Load", d>>
Dumps(v, o) == IF v \in Raises THEN <<"raise", v>> ELSE <<"Dumps", v, o>>

CanOp == Len(hist) < MaxOps /\ pend = <<>>
Log(e) == hist' = Append(hist, e)

\* ---- loading ------------------------------------------------------------
LoadStr(d) ==
    /\ CanOp /\ Log([op |-> "load", kind |-> "str", arg |-> d, res |-> Load(d), path |-> ""])
    /\ UNCHANGED <<fs, handles, pend>>

\* a Path: yatiml opens it ...
LoadPathOpen(p) ==
    /\ CanOp /\ fs[p][1] = "doc"
    /\ handles' = Append(handles, [owner |-> "yatiml", path |-> p, state |-> "open"])
    /\ pend' = <<"loadpath", p, Len(handles) + 1>>
    /\ UNCHANGED <<fs, hist>>
\* ... loads, and closes it whether or not the load fails (`with`)
LoadPathFinish ==
    /\ pend # <<>> /\ pend[1] = "loadpath"
    /\ handles' = [handles EXCEPT ![pend[3]].state = "closed"]
    /\ Log([op |-> "load", kind |-> "path", arg |-> fs[pend[2]][2], res |-> Load(fs[pend[2]][2]),
            path |-> pend[2]])
    /\ pend' = <<>>
    /\ UNCHANGED fs

\* an open stream handed in by the caller (text or binary): not closed
LoadStream(d, k) ==
    /\ CanOp /\ k \in {"text", "binary"}
    /\ handles' = Append(handles, [owner |-> "caller", path |-> "", state |-> "open"])
    /\ Log([op |-> "load", kind |-> k, arg |-> d, res |-> Load(d), path |-> ""])
    /\ UNCHANGED <<fs, pend>>

\* ---- dumping ------------------------------------------------------------
DumpsCall(v, o) ==
    /\ CanOp /\ Log([op |-> "dumps", kind |-> "str", arg |-> <<v, o>>, res |-> Dumps(v, o), path |-> ""])
    /\ UNCHANGED <<fs, handles, pend>>

\* a file name or a Path: opened for writing (truncates) ...
DumpPathOpen(p, v, o, k) ==
    /\ CanOp /\ k \in {"strpath", "path"}
    /\ handles' = Append(handles, [owner |-> "yatiml", path |-> p, state |-> "open"])
    /\ fs' = [fs EXCEPT ![p] = <<"text", <<"empty">>>>]
    /\ pend' = <<"dumppath", p, Len(handles) + 1, v, o, k>>
    /\ UNCHANGED hist
\* ... written with the same options as the dumps variant, and closed on
\* both paths
DumpPathFinish ==
    /\ pend # <<>> /\ pend[1] = "dumppath"
    /\ handles' = [handles EXCEPT ![pend[3]].state = "closed"]
    /\ fs' = [fs EXCEPT ![pend[2]] = IF pend[4] \in Raises THEN fs[pend[2]]
                                      ELSE <<"text", Dumps(pend[4], pend[5])>>]
    /\ Log([op |-> "dump", kind |-> pend[6], arg |-> <<pend[4], pend[5]>>,
            res |-> Dumps(pend[4], pend[5]), path |-> pend[2]])
    /\ pend' = <<>>

DumpStream(v, o) ==
    /\ CanOp
    /\ handles' = Append(handles, [owner |-> "caller", path |-> "", state |-> "open"])
    /\ Log([op |-> "dump", kind |-> "text", arg |-> <<v, o>>, res |-> Dumps(v, o), path |-> ""])
    /\ UNCHANGED <<fs, pend>>

\* the caller puts a document into a file (environment)
WriteDoc(p, d) ==
    /\ CanOp /\ fs[p][1] # "doc"
    /\ fs' = [fs EXCEPT ![p] = <<"doc", d>>]
    /\ UNCHANGED <<handles, hist, pend>>

Init ==
    /\ fs = [p \in Paths |-> <<"none", <<"empty">>>>]
    /\ handles = <<>> /\ hist = <<>> /\ pend = <<>>

Next ==
    \/ \E d \in Docs : LoadStr(d) \/ \E k \in {"text", "binary"} : LoadStream(d, k)
    \/ \E p \in Paths : LoadPathOpen(p)
    \/ LoadPathFinish \/ DumpPathFinish
    \/ \E v \in Vals, o \in Opts :
          \/ DumpsCall(v, o) \/ DumpStream(v, o)
          \/ \E p \in Paths, k \in {"strpath", "path"} : DumpPathOpen(p, v, o, k)
    \/ \E p \in Paths, d \in Docs : WriteDoc(p, d)

Spec == Init /\ [][Next]_vars

(* ---------------- properties -------------------------------------------- *)
\* between operations no file opened by yatiml is open; callers' streams
\* are never closed
NoHandleLeak ==
    pend = <<>> => \A i \in DOMAIN handles :
        (handles[i].owner = "yatiml" => handles[i].state = "closed") /\
        (handles[i].owner = "caller" => handles[i].state = "open")

\* every source kind gives the result of loading the same text
SourcesAgree ==
    \A i, j \in DOMAIN hist :
        hist[i].op = "load" /\ hist[j].op = "load" /\ hist[i].arg = hist[j].arg
            => hist[i].res = hist[j].res

\* every sink kind receives exactly the text dumps returns for the same
\* object and options
SinksAgree ==
    \A i, j \in DOMAIN hist :
        hist[i].op \in {"dump", "dumps"} /\ hist[j].op \in {"dump", "dumps"}
        /\ hist[i].arg = hist[j].arg => hist[i].res = hist[j].res
FileHoldsTheText ==
    pend = <<>> =>
    \A i \in DOMAIN hist :
        hist[i].op = "dump" /\ hist[i].path # "" /\ hist[i].res[1] = "Dumps"
        /\ (\A j \in DOMAIN hist : j > i => hist[j].path # hist[i].path)
        /\ fs[hist[i].path][1] = "text"
            => fs[hist[i].path][2] = hist[i].res

Export == Len(hist) = MaxOps /\ pend = <<>> =>
    PrintT(<<"CASE", ToJson([hist |-> hist])>>)
=============================================================================
