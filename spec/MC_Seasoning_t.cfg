SPECIFICATION Spec
CONSTANTS
  Nodes <- NodesT
  ValAttrs <- VA
INVARIANT SeqMapSeqInverse
INVARIANT IndexMapIndexInverse
INVARIANT NoOpWhenNotApplicable
INVARIANT ErrorOnlyForStrictDuplicates
CONSTRAINT Export
CHECK_DEADLOCK FALSE
