---- MODULE MC_RemoveDefaults ----
EXTENDS RemoveDefaults
Sc == { <<"int", "1">>, <<"int", "0">>, <<"int", "42">>, <<"float", "1.0">>, <<"float", "1.5">>,
        <<"float", "inf">>, <<"float", "nan">>, <<"float", "-0.0">>, <<"float", "0.0">>,
        <<"bool", "true">>, <<"bool", "false">>, <<"null", "">>, <<"str", "abc">>,
        <<"str", "1">>, <<"str", "">>, <<"str", "None">>, <<"str", "True">>, <<"str", "1.5">>, <<"str", "true">>, <<"str", "null">> }
====
