--------------------------- MODULE RemoveDefaults ---------------------------
(***************************************************************************)
(* Node.remove_attributes_with_default_values (yatiml/helpers.py:293-381)  *)
(* with defaulted_attributes / _yatiml_defaults (introspection.py:32-58).  *)
(* One class with one required and two optional parameters; all            *)
(* (default, value) pairs over the built-in scalar kinds, the default      *)
(* taken from the signature or overridden by _yatiml_defaults.             *)
(* Kinds and atoms: a scalar is <<kind, atom>>; equal means same kind and  *)
(* same atom.  Pairs of different kinds whose Python values compare equal  *)
(* (1 == True == 1.0) are "dontcare": the documentation does not say.      *)
(***************************************************************************)
EXTENDS Naturals, Sequences, FiniteSets, TLC, Json

CONSTANTS Scalars    \* set of <<kind, atom>>

VARIABLES sigdef,    \* default of parameter p in the signature
          override,  \* <<"none">> or the _yatiml_defaults entry for p
          value,     \* value of attribute p in the node
          qvalue,    \* value of attribute q (default <<"int", "3">>)
          done
vars == <<sigdef, override, value, qvalue, done>>

Numeric(s) == s[1] \in {"int", "float", "bool"}
\* Python equality across kinds for the atoms used
NumVal(s) == CASE s = <<"int", "1">> -> 1 [] s = <<"float", "1.0">> -> 1 [] s = <<"bool", "true">> -> 1
               [] s = <<"int", "0">> -> 0 [] s = <<"float", "0.0">> -> 0 [] s = <<"bool", "false">> -> 0
               [] s = <<"float", "-0.0">> -> 0
               [] OTHER -> 99
Effective == IF override = <<"none">> THEN sigdef ELSE override

\* "removed" | "kept" | "dontcare"
Expect(v, d) ==
    IF v = d THEN (IF v = <<"float", "nan">> THEN "kept" ELSE "removed")
    ELSE IF Numeric(v) /\ Numeric(d) /\ NumVal(v) = NumVal(d) /\ NumVal(v) # 99 THEN "dontcare"
    ELSE "kept"

Init ==
    /\ sigdef \in Scalars
    /\ override \in Scalars \cup {<<"none">>}
    /\ value \in Scalars
    /\ qvalue \in {<<"int", "3">>, <<"int", "4">>}
    /\ done = FALSE
Apply == ~done /\ done' = TRUE /\ UNCHANGED <<sigdef, override, value, qvalue>>
Spec == Init /\ [][Apply]_vars

\* exactly the defaulted attributes whose value equals the default go;
\* required attributes always stay
Export ==
    done => PrintT(<<"CASE", ToJson(
        [sigdef |-> sigdef, override |-> override, value |-> value, qvalue |-> qvalue,
         p |-> Expect(value, Effective),
         q |-> Expect(qvalue, <<"int", "3">>)])>>)
Sanity == Expect(<<"int", "1">>, <<"int", "1">>) = "removed" /\ Expect(<<"int", "1">>, <<"null", "">>) = "kept"
=============================================================================
