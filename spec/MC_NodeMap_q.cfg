SPECIFICATION Spec
CONSTANTS
  Keys <- K3
  InitMaps <- InitsQ
  Types <- QTypes
  SetVals <- ValsQ
  MaxOps = 3
INVARIANT KeysDistinct
INVARIANT SetThenGet
PROPERTY OrderPreserved
PROPERTY NewKeysAppend
CONSTRAINT Export
CHECK_DEADLOCK FALSE
