----------------------------- MODULE Seasoning -----------------------------
(***************************************************************************)
(* The structural seasoning transforms of yatiml.Node                      *)
(* (helpers.py: seq_attribute_to_map, map_attribute_to_seq,                *)
(* index_attribute_to_map, map_attribute_to_index, unders_to_dashes_in_keys*)
(* dashes_to_unders_in_keys) as operators on node trees, written from the  *)
(* docstrings, with the inverse laws as properties.                        *)
(*                                                                         *)
(* tree: <<"s", tag, text>> | <<"q", <<t1, ..>>>> | <<"m", <<k1, t1, ..>>>>*)
(* (mapping keys are strings).  Results: a tree, <<"ERR">> (SeasoningError)*)
(* or <<"OOD">> (input outside the documented domain: no claim).           *)
(***************************************************************************)
EXTENDS Naturals, Sequences, FiniteSets, TLC, Json

CONSTANTS Nodes,      \* the input universe
          ValAttrs    \* value attribute choices, "" = none

VARIABLES node, keyattr, valattr, strict, done
vars == <<node, keyattr, valattr, strict, done>>

ERR == <<"ERR">>
OOD == <<"OOD">>
Attr == "items"

KIdx(kv, name) == {i \in DOMAIN kv : i % 2 = 1 /\ kv[i] = name}
MHas(t, name) == t[1] = "m" /\ KIdx(t[2], name) # {}
First(S) == CHOOSE x \in S : \A y \in S : x <= y
MGet(t, name) == t[2][First(KIdx(t[2], name)) + 1]
\* Node.set_attribute: overwrite the first match in place, else append
MSet(t, name, v) ==
    IF MHas(t, name) THEN <<"m", [t[2] EXCEPT ![First(KIdx(t[2], name)) + 1] = v]>>
    ELSE <<"m", t[2] \o <<name, v>>>>
\* all entries but those with key `name`
RECURSIVE Without(_, _, _)
Without(kv, i, name) ==
    IF i > Len(kv) THEN <<>>
    ELSE (IF kv[i] = name THEN <<>> ELSE <<kv[i], kv[i + 1]>>) \o Without(kv, i + 2, name)
NPairs(kv) == Len(kv) \div 2
\* some / every value of a flattened mapping satisfies P
SomeVal(kv, P(_)) == \E i \in DOMAIN kv : i % 2 = 0 /\ P(kv[i])
EveryVal(kv, P(_)) == \A i \in DOMAIN kv : i % 2 = 0 => P(kv[i])
NotMap(v) == v[1] # "m"
IsMap(v) == v[1] = "m"
StrScalar(k) == <<"s", "str", k>>

(* ---------------- seq_attribute_to_map ----------------------------------- *)
RECURSIVE S2M(_, _, _, _)
S2M(items, i, key, val) ==
    IF i > Len(items) THEN <<>>
    ELSE LET it == items[i]
             k == MGet(it, key)[3]
             rest == Without(it[2], 1, key)
             short == val # "" /\ NPairs(rest) = 1 /\ rest[1] = val IN
         <<k, IF short THEN rest[2] ELSE <<"m", rest>>>> \o S2M(items, i + 1, key, val)

SeqToMap(n, key, val, str) ==
    IF ~MHas(n, Attr) THEN n
    ELSE LET a == MGet(n, Attr) IN
    IF a[1] # "q" THEN n
    ELSE IF \E i \in DOMAIN a[2] : a[2][i][1] # "m" THEN n        \* not a sequence of mappings
    ELSE IF \E i \in DOMAIN a[2] : ~MHas(a[2][i], key) \/
                Cardinality(KIdx(a[2][i][2], key)) > 1 THEN OOD
    ELSE IF \E i \in DOMAIN a[2] : LET kn == MGet(a[2][i], key) IN
                                   kn[1] # "s" \/ kn[2] # "str" THEN OOD
    ELSE IF \E i, j \in DOMAIN a[2] : i # j /\ MGet(a[2][i], key)[3] = MGet(a[2][j], key)[3]
         THEN (IF str THEN ERR ELSE n)
    ELSE MSet(n, Attr, <<"m", S2M(a[2], 1, key, val)>>)

(* ---------------- map_attribute_to_seq ----------------------------------- *)
RECURSIVE M2S(_, _, _, _)
M2S(kv, i, key, val) ==
    IF i > Len(kv) THEN <<>>
    ELSE LET v == kv[i + 1]
             item == IF v[1] = "m" THEN MSet(v, key, StrScalar(kv[i]))
                     ELSE <<"m", <<val, v, key, StrScalar(kv[i])>>>> IN
         <<item>> \o M2S(kv, i + 2, key, val)

MapToSeq(n, key, val) ==
    IF ~MHas(n, Attr) THEN n
    ELSE LET a == MGet(n, Attr) IN
    IF a[1] # "m" THEN n
    ELSE IF val = "" /\ SomeVal(a[2], NotMap) THEN n     \* invalid format
    ELSE MSet(n, Attr, <<"q", M2S(a[2], 1, key, val)>>)

(* ---------------- index_attribute_to_map --------------------------------- *)
RECURSIVE I2M(_, _, _, _)
I2M(kv, i, key, val) ==
    IF i > Len(kv) THEN <<>>
    ELSE LET rest == Without(kv[i + 1][2], 1, key)
             short == NPairs(rest) = 1 /\ rest[1] = val /\ val # "" IN
         <<kv[i], IF short THEN rest[2] ELSE <<"m", rest>>>> \o I2M(kv, i + 2, key, val)

IndexToMap(n, key, val) ==
    IF ~MHas(n, Attr) THEN n
    ELSE LET a == MGet(n, Attr) IN
    IF a[1] # "m" THEN n
    ELSE IF SomeVal(a[2], NotMap) THEN n                 \* not a mapping of mappings
    ELSE MSet(n, Attr, <<"m", I2M(a[2], 1, key, val)>>)

(* ---------------- map_attribute_to_index --------------------------------- *)
RECURSIVE M2I(_, _, _, _)
M2I(kv, i, key, val) ==
    IF i > Len(kv) THEN <<>>
    ELSE LET v == kv[i + 1]
             mp == IF v[1] = "m" THEN v ELSE <<"m", <<val, v>>>> IN
         <<kv[i], <<"m", mp[2] \o <<key, StrScalar(kv[i])>>>>>> \o M2I(kv, i + 2, key, val)

MapToIndex(n, key, val) ==
    IF ~MHas(n, Attr) THEN n
    ELSE LET a == MGet(n, Attr) IN
    IF a[1] # "m" THEN n
    ELSE IF val = "" /\ SomeVal(a[2], NotMap) THEN n
    ELSE IF SomeVal(a[2], LAMBDA v : v[1] = "m" /\ MHas(v, key)) THEN OOD   \* would duplicate the key
    ELSE MSet(n, Attr, <<"m", M2I(a[2], 1, key, val)>>)

(* ---------------- comparison up to the position of the key attribute ----- *)
RECURSIVE KeyFirst(_, _)
\* move attribute `key` to the front of every mapping below the items attribute
KeyFirstMap(t, key) ==
    IF t[1] = "m" /\ MHas(t, key)
    THEN <<"m", <<key, MGet(t, key)>> \o Without(t[2], 1, key)>> ELSE t
KeyFirst(t, key) ==
    IF t[1] = "q" THEN <<"q", [i \in DOMAIN t[2] |-> KeyFirstMap(t[2][i], key)]>>
    ELSE IF t[1] = "m" THEN <<"m", [i \in DOMAIN t[2] |-> IF i % 2 = 0 THEN KeyFirstMap(t[2][i], key)
                                                       ELSE t[2][i]]>>
    ELSE t
Canon(n, key) == IF n \in {ERR, OOD} \/ ~MHas(n, Attr) THEN n
                 ELSE MSet(n, Attr, KeyFirst(MGet(n, Attr), key))

\* side condition of the inverse laws: a named value attribute does not
\* itself hold a mapping
ValueAttrHoldsMapping(n, val) ==
    /\ val # "" /\ MHas(n, Attr)
    /\ LET a == MGet(n, Attr) IN
       \/ a[1] = "q" /\ \E i \in DOMAIN a[2] : a[2][i][1] = "m" /\ MHas(a[2][i], val)
                                              /\ MGet(a[2][i], val)[1] = "m"
       \/ a[1] = "m" /\ SomeVal(a[2], LAMBDA v : v[1] = "m" /\ MHas(v, val) /\ MGet(v, val)[1] = "m")

IsSeqOfMaps(n) == MHas(n, Attr) /\ MGet(n, Attr)[1] = "q" /\
                  \A i \in DOMAIN MGet(n, Attr)[2] : MGet(n, Attr)[2][i][1] = "m"
IsMapOfMaps(n) == MHas(n, Attr) /\ MGet(n, Attr)[1] = "m" /\ EveryVal(MGet(n, Attr)[2], IsMap)

(* ---------------- the state machine: pick an input, apply ---------------- *)
Init ==
    /\ node \in Nodes
    /\ keyattr = "id"
    /\ valattr \in ValAttrs
    /\ strict \in BOOLEAN
    /\ done = FALSE
Apply == ~done /\ done' = TRUE /\ UNCHANGED <<node, keyattr, valattr, strict>>
Spec == Init /\ [][Apply]_vars

S2Mres == SeqToMap(node, keyattr, valattr, strict)
I2Mres == IndexToMap(node, keyattr, valattr)

\* seq -> map -> seq restores the data up to the position of the key attribute
SeqMapSeqInverse ==
    IsSeqOfMaps(node) /\ S2Mres \notin {ERR, OOD} /\ S2Mres # node
    /\ ~ValueAttrHoldsMapping(node, valattr) =>
        Canon(MapToSeq(S2Mres, keyattr, valattr), keyattr) = Canon(node, keyattr)
\* index -> map -> index likewise
IndexMapIndexInverse ==
    IsMapOfMaps(node) /\ ~ValueAttrHoldsMapping(node, valattr)
    /\ EveryVal(MGet(node, Attr)[2],
                LAMBDA v : MHas(v, keyattr) /\ Cardinality(KIdx(v[2], keyattr)) = 1) =>
        LET back == MapToIndex(I2Mres, keyattr, valattr) IN
        \* the key attribute's value is the outer key after the round trip
        back # OOD /\
        Canon(back, keyattr) =
            Canon(MSet(node, Attr,
                       <<"m", [i \in DOMAIN MGet(node, Attr)[2] |->
                                 IF i % 2 = 1 THEN MGet(node, Attr)[2][i]
                                 ELSE MSet(MGet(node, Attr)[2][i], keyattr,
                                           StrScalar(MGet(node, Attr)[2][i - 1]))]>>), keyattr)
\* not applicable: the node is left unchanged
NoOpWhenNotApplicable ==
    /\ (~MHas(node, Attr) \/ MGet(node, Attr)[1] # "q") => S2Mres = node
    /\ (~MHas(node, Attr) \/ MGet(node, Attr)[1] # "m") =>
          /\ I2Mres = node
          /\ MapToSeq(node, keyattr, valattr) = node
          /\ MapToIndex(node, keyattr, valattr) = node
    /\ (MHas(node, Attr) /\ MGet(node, Attr)[1] = "q" /\ ~IsSeqOfMaps(node)) => S2Mres = node
\* SeasoningError only for duplicate keys in strict mode
ErrorOnlyForStrictDuplicates == S2Mres = ERR => strict

Export ==
    done => PrintT(<<"CASE", ToJson(
        [node |-> node, key |-> keyattr, val |-> valattr, strict |-> strict,
         s2m |-> S2Mres, m2s |-> MapToSeq(node, keyattr, valattr),
         i2m |-> I2Mres, m2i |-> MapToIndex(node, keyattr, valattr),
         laws |-> [seq |-> SeqMapSeqInverse, index |-> IndexMapIndexInverse,
                   noop |-> NoOpWhenNotApplicable, err |-> ErrorOnlyForStrictDuplicates]])>>)
=============================================================================
