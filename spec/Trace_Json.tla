----------------------------- MODULE Trace_Json -----------------------------
(***************************************************************************)
(* Trace validation (code -> spec) for the JSON emitter: traces recorded   *)
(* from the real Dumper.emit_json (one record per event, taken at the      *)
(* call's return: event kind, _json_state after, _cur_indent after, the    *)
(* chunk written, tokenised) are checked to be behaviours of JsonEmitter.  *)
(* Many traces are validated per TLC run: tid is chosen in Init; the       *)
(* furthest position reached per trace is kept in TLC registers and judged *)
(* in the POSTCONDITION (run with -workers 1).                             *)
(***************************************************************************)
EXTENDS JsonEmitter, Json, IOUtils, TLCExt

Traces == JsonDeserialize(IOEnv.TRACE_FILE)
NT == Len(Traces)

VARIABLES tid, l
tvars == <<vars, tid, l>>

T == Traces[tid].events
Erase(t) == IF t[1] = "SC" THEN <<"SC", t[2]>> ELSE t
NewToks == [i \in 1..(Len(out') - Len(out)) |-> Erase(out'[Len(out) + i])]

ASSUME \A i \in 1..NT : TLCSet(i, 0)

TraceInit ==
    /\ tid \in 1..NT
    /\ l = 1
    /\ req = Traces[tid].req
    /\ best = Traces[tid].best
    /\ st = <<"NONE">> /\ ind = 0 /\ out = <<>> /\ env = <<>> /\ evs = <<>> /\ phase = "pre"

\* StreamStartEvent reaches emit_json before the document starts: it falls
\* through the else branch at top level and changes nothing
TraceStreamStart ==
    /\ phase = "pre" /\ EmitOther
    /\ UNCHANGED <<req, best, env, evs, phase>>

Matches(e) ==
    /\ st' = e.st
    /\ ind' = e.ind
    /\ NewToks = e.toks

TraceNext ==
    /\ l <= Len(T)
    /\ LET e == T[l] IN
       /\ CASE e.ev = "streamstart" -> TraceStreamStart
            [] e.ev = "docstart" -> StepDocStart
            [] e.ev = "scalar" -> StepScalar /\ evs'[Len(evs')][2] = e.kind
            [] e.ev = "seqstart" -> StepSeqStart
            [] e.ev = "seqend" -> StepSeqEnd
            [] e.ev = "mapstart" -> StepMapStart
            [] e.ev = "mapend" -> StepMapEnd
            [] e.ev = "docend" -> StepDocEnd
            [] e.ev = "streamend" -> StepStreamEnd
            [] e.ev = "raised:RuntimeError" -> StepAlias
            [] OTHER -> FALSE
       /\ Matches(e)
    /\ l' = l + 1
    /\ UNCHANGED tid

TraceSpec == TraceInit /\ [][TraceNext]_tvars

\* remember how far each trace got
Progress == TLCSet(tid, IF TLCGet(tid) > l THEN TLCGet(tid) ELSE l)

\* every recorded state also satisfies the emitter's invariants (they are
\* listed as INVARIANTs in the cfg): evaluated at every recorded step

TraceAccepted ==
    LET bad == {i \in 1..NT : TLCGet(i) # Len(Traces[i].events) + 1} IN
    /\ PrintT(<<"TRACES", NT, "REJECTED", bad, [i \in bad |-> TLCGet(i)]>>)
    /\ bad = {}
=============================================================================
