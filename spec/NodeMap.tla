------------------------------ MODULE NodeMap ------------------------------
(***************************************************************************)
(* yatiml.Node as an ordered map with typed scalar values                  *)
(* (yatiml/helpers.py: has_attribute, get_attribute, set_attribute,        *)
(* remove_attribute, rename_attribute, has_attribute_type, is_scalar /     *)
(* is_mapping / is_sequence, set_value / get_value, make_mapping,          *)
(* is_empty).  The specification IS the ordered-dictionary reading of the  *)
(* documentation; every behaviour TLC generates is replayed on a real Node *)
(* wrapping a composed YAML mapping, comparing every return value and the  *)
(* wrapped node after every call.                                          *)
(*                                                                         *)
(*   m    : the mapping, a sequence of <<key, value>>; a value is          *)
(*          <<"s", tag, text>> (scalar), <<"q">> (a sequence), <<"m">>     *)
(*   self : what the node itself is: "m" (mapping), or a scalar after      *)
(*          set_value                                                      *)
(*   hist : operations so far with their results (observation)             *)
(***************************************************************************)
EXTENDS Naturals, Sequences, FiniteSets, TLC, Json

CONSTANTS Keys,        \* attribute names used by the operations
          InitMaps,    \* initial mappings
          SetVals,     \* scalar values passed to set_attribute / set_value
          Types,       \* type arguments of has_attribute_type
          MaxOps

VARIABLES m, self, hist, m0
vars == <<m, self, hist, m0>>

KeysOf(mm) == {mm[i][1] : i \in DOMAIN mm}
Idx(mm, k) == CHOOSE i \in DOMAIN mm : mm[i][1] = k /\ \A j \in DOMAIN mm : mm[j][1] = k => i <= j
Has(mm, k) == k \in KeysOf(mm)

\* the node a Python scalar becomes (set_attribute / set_value)
\* SetVals elements are <<pytype, text>>
ScalarNode(v) ==
    CASE v[1] = "str" -> <<"s", "str", v[2]>>
      [] v[1] = "bool" -> <<"s", "bool", v[2]>>
      [] v[1] = "int" -> <<"s", "int", v[2]>>
      [] v[1] = "float" -> <<"s", "float", v[2]>>
      [] v[1] = "null" -> <<"s", "null", "">>
      [] OTHER -> <<"s", "str", "?">>

TypeTags == [str |-> "str", int |-> "int", float |-> "float", bool |-> "bool",
             null |-> "null"]
\* has_attribute_type(attr, typ): typ in str int float bool None list dict
HasType(val, typ) ==
    CASE typ \in {"str", "int", "float", "bool", "null"} -> val[1] = "s" /\ val[2] = TypeTags[typ]
      [] typ = "list" -> val[1] = "q"
      [] typ = "dict" -> val[1] = "m"
      [] OTHER -> FALSE

Record(op, args, r) ==
    /\ hist' = Append(hist, [op |-> op, args |-> args, ret |-> r, m |-> m', self |-> self'])
    /\ UNCHANGED m0
IsMap == self = <<"m">>
CanOp == Len(hist) < MaxOps

OpHas(k) ==
    /\ CanOp /\ IsMap
    /\ UNCHANGED <<m, self>>
    /\ Record("has_attribute", <<k>>, <<"bool", Has(m, k)>>)

OpGet(k) ==
    /\ CanOp /\ IsMap
    /\ UNCHANGED <<m, self>>
    \* an absent key is reported (the documentation says KeyError, the code
    \* raises SeasoningError: either is "reported")
    /\ Record("get_attribute", <<k>>, IF Has(m, k) THEN <<"node", m[Idx(m, k)][2]>>
                                      ELSE <<"raises">>)

OpSet(k, v) ==
    /\ CanOp /\ IsMap
    /\ m' = IF Has(m, k) THEN [m EXCEPT ![Idx(m, k)] = <<k, ScalarNode(v)>>]   \* keeps position
            ELSE Append(m, <<k, ScalarNode(v)>>)                               \* appends
    /\ UNCHANGED self
    /\ Record("set_attribute", <<k, v>>, <<"none">>)

OpRemove(k) ==
    /\ CanOp /\ IsMap
    /\ m' = SelectSeq(m, LAMBDA e : e[1] # k)        \* absent: ignored
    /\ UNCHANGED self
    /\ Record("remove_attribute", <<k>>, <<"none">>)

\* renaming onto an existing other key would create a duplicate: outside the
\* domain of distinct keys
OpRename(a, b) ==
    /\ CanOp /\ IsMap /\ (b \notin KeysOf(m) \/ a = b \/ ~Has(m, a))
    /\ m' = IF Has(m, a) THEN [m EXCEPT ![Idx(m, a)] = <<b, m[Idx(m, a)][2]>>] ELSE m
    /\ UNCHANGED self
    /\ Record("rename_attribute", <<a, b>>, <<"none">>)

OpHasType(k, typ) ==
    /\ CanOp /\ IsMap
    /\ UNCHANGED <<m, self>>
    /\ Record("has_attribute_type", <<k, typ>>,
              <<"bool", Has(m, k) /\ HasType(m[Idx(m, k)][2], typ)>>)

OpIsEmpty ==
    /\ CanOp /\ IsMap
    /\ UNCHANGED <<m, self>>
    /\ Record("is_empty", <<>>, <<"bool", m = <<>>>>)

\* classification of the node itself: exactly one of the three holds
OpClassify ==
    /\ CanOp
    /\ UNCHANGED <<m, self>>
    /\ Record("classify", <<>>, <<"kinds", self[1] = "s", self[1] = "m", self[1] = "q",
                                  IF self[1] = "s" THEN self[2] ELSE "">>)

\* set_value(v): afterwards is_scalar(type(v)) and get_value() = v
OpSetValue(v) ==
    /\ CanOp
    /\ self' = ScalarNode(v)
    /\ m' = <<>>
    /\ Record("set_value", <<v>>, <<"none">>)

OpGetValue ==
    /\ CanOp /\ self[1] = "s"
    /\ UNCHANGED <<m, self>>
    /\ Record("get_value", <<>>, <<"value", self[2], self[3]>>)

OpMakeMapping ==
    /\ CanOp
    /\ self' = <<"m">> /\ m' = <<>>
    /\ Record("make_mapping", <<>>, <<"none">>)

Init ==
    /\ m \in InitMaps
    /\ m0 = m
    /\ self = <<"m">>
    /\ hist = <<>>

Next ==
    \/ \E k \in Keys : OpHas(k) \/ OpGet(k) \/ OpRemove(k)
    \/ \E k \in Keys, v \in SetVals : OpSet(k, v)
    \/ \E a \in Keys, b \in Keys : OpRename(a, b)
    \/ \E k \in Keys, t \in Types : OpHasType(k, t)
    \/ OpIsEmpty \/ OpClassify \/ OpGetValue \/ OpMakeMapping
    \/ \E v \in SetVals : OpSetValue(v)

Spec == Init /\ [][Next]_vars

(* ---------------- properties -------------------------------------------- *)
KeysDistinct == \A i, j \in DOMAIN m : m[i][1] = m[j][1] => i = j

\* existing keys keep their relative order, whatever the operation
OrderPreserved ==
    [][\A a, b \in KeysOf(m) \cap KeysOf(m') :
          IsMap /\ self' = <<"m">> /\ m' # <<>> =>
              ((Idx(m, a) < Idx(m, b)) <=> (Idx(m', a) < Idx(m', b)))]_vars

\* a key that is new after an operation is the last one
NewKeysAppend ==
    [][IsMap /\ self' = <<"m">> =>
         \A k \in KeysOf(m') \ KeysOf(m) :
             \/ Idx(m', k) = Len(m')
             \/ \E a \in KeysOf(m) : a \notin KeysOf(m') /\ Idx(m, a) = Idx(m', k)]_vars   \* rename

\* set_value then get_value returns the value, typed as given
SetThenGet ==
    \A i \in DOMAIN hist : i > 1 /\ hist[i].op = "get_value" /\ hist[i - 1].op = "set_value" =>
        LET v == hist[i - 1].args[1] IN
        hist[i].ret = <<"value", TypeTags[v[1]], IF v[1] = "null" THEN "" ELSE v[2]>>

Export == Len(hist) = MaxOps => PrintT(<<"CASE", ToJson([init |-> m0, hist |-> hist])>>)
=============================================================================
