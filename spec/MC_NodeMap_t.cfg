SPECIFICATION Spec
CONSTANTS
  Keys <- K3
  InitMaps <- Inits
  Types <- AllTypes
  SetVals <- Vals
  MaxOps = 3
INVARIANT KeysDistinct
INVARIANT SetThenGet
PROPERTY OrderPreserved
PROPERTY NewKeysAppend
CONSTRAINT Export
CHECK_DEADLOCK FALSE
