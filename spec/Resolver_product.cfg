SPECIFICATION Spec
CONSTANTS
  MaxLen = 0
  UseAlphabet = FALSE
VIEW ProductView
INVARIANT LoaderFollowsYaml12
CONSTRAINT Export
CHECK_DEADLOCK FALSE
