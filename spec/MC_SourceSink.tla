---- MODULE MC_SourceSink ----
EXTENDS SourceSink
D == {"d1", "d2"}
V == {"v1", "v2", "vbad"}
O == {"o1", "o2"}
R == {"vbad"}
====
