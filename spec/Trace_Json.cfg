SPECIFICATION TraceSpec
CONSTANTS
  IndentChoices <- TIndents
  MaxDepth = 64
  MaxWidth = 190
  MaxEvents = 100000
  ScalarKinds <- TKinds
  KeyAtoms <- TKeys
INVARIANT StackMirrorsNesting
INVARIANT IndentNonNegative
INVARIANT IndentTracksDepth
INVARIANT PrefixWellNested
INVARIANT OutputIsTheTree
CONSTRAINT Progress
POSTCONDITION TraceAccepted
CHECK_DEADLOCK FALSE
