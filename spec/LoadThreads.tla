----------------------------- MODULE LoadThreads -----------------------------
(***************************************************************************)
(* Concurrent calls of ONE load function from several threads.             *)
(*                                                                         *)
(* What the threads share (yatiml/loader.py, constructors.py): the         *)
(* UserLoader CLASS (read only after creation) and one Constructor object  *)
(* per registered class, whose attribute __loader is written on every      *)
(* construction (constructors.py:72) and read a few lines later by         *)
(* __strip_extra_attributes (strip_tags(self.__loader, ...)).  Each call   *)
(* has its own Loader INSTANCE (resolver patches, recogniser, node graph). *)
(*                                                                         *)
(* The model: per thread a program counter over the steps of one load that *)
(* touch the shared cell; TLC explores all interleavings.  The result of a *)
(* call is Sem(argument, loader used for stripping); all Loader instances  *)
(* of one function have identical resolver tables (LoaderEquivalence), so  *)
(* reading another thread's loader from the cell cannot change the result: *)
(* the race is benign, and CallsIsolated holds for every schedule.         *)
(***************************************************************************)
EXTENDS Naturals, FiniteSets, TLC

CONSTANTS Threads,     \* thread ids
          Args         \* argument ids

VARIABLES pc,      \* pc[t] in "idle" "composed" "entered" "stripped" "done"
          arg,     \* arg[t]
          cell,    \* Constructor.__loader: the thread whose Loader instance was stored last
          used,    \* used[t]: whose loader thread t read from the cell when stripping
          res      \* res[t]
vars == <<pc, arg, cell, used, res>>

None == "none"
\* every Loader instance of one load function resolves scalars identically
\* (the patches of __patch_floats/__patch_bools are the same for each instance)
LoaderEquivalence(a, b) == TRUE
Sem(a, loaderOf) == <<"Sem", a>>          \* independent of loaderOf by LoaderEquivalence

Init ==
    /\ pc = [t \in Threads |-> "idle"]
    /\ arg \in [Threads -> Args]
    /\ cell = None
    /\ used = [t \in Threads |-> None]
    /\ res = [t \in Threads |-> <<"none">>]

\* compose + __process_node: thread-local state only
Compose(t) ==
    /\ pc[t] = "idle"
    /\ pc' = [pc EXCEPT ![t] = "composed"]
    /\ UNCHANGED <<arg, cell, used, res>>

\* Constructor.__call__: self.__loader = loader
Enter(t) ==
    /\ pc[t] = "composed"
    /\ cell' = t
    /\ pc' = [pc EXCEPT ![t] = "entered"]
    /\ UNCHANGED <<arg, used, res>>

\* __strip_extra_attributes: strip_tags(self.__loader, value_node)
Strip(t) ==
    /\ pc[t] = "entered"
    /\ used' = [used EXCEPT ![t] = cell]
    /\ pc' = [pc EXCEPT ![t] = "stripped"]
    /\ UNCHANGED <<arg, cell, res>>

\* construct_mapping, checks, __init__: thread-local
Finish(t) ==
    /\ pc[t] = "stripped"
    /\ res' = [res EXCEPT ![t] = Sem(arg[t], used[t])]
    /\ pc' = [pc EXCEPT ![t] = "done"]
    /\ UNCHANGED <<arg, cell, used>>

Next == \E t \in Threads : Compose(t) \/ Enter(t) \/ Strip(t) \/ Finish(t)
Spec == Init /\ [][Next]_vars

\* a thread may well read ANOTHER thread's loader from the shared cell ...
RaceIsReachable == \A t \in Threads : used[t] \in {None, t}      \* expected to be VIOLATED
\* ... but every call returns what the same call returns alone
CallsIsolated == \A t \in Threads : pc[t] = "done" => res[t] = <<"Sem", arg[t]>>
=============================================================================
