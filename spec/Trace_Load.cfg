SPECIFICATION TraceSpec
CONSTANTS
  MaxNodes = 0
  Tier = "q"
  ModelIds <- NoModels
  AllowAlias = FALSE
  AllowCycles = FALSE
  AllowEmpty = FALSE
INVARIANT TraceTypeSafe
INVARIANT TraceMatchesReference
INVARIANT TraceOnlyDocumentedErrors
CONSTRAINT Progress
CONSTRAINT Export
POSTCONDITION TraceAccepted
CHECK_DEADLOCK FALSE
