SPECIFICATION Spec
CONSTANTS
  Keys <- K3
  InitMaps <- Inits
  Types <- AllTypes
  SetVals <- Vals
  MaxOps = 12
INVARIANT KeysDistinct
INVARIANT SetThenGet
CONSTRAINT Export
CHECK_DEADLOCK FALSE
