SPECIFICATION Spec
CONSTANTS
  IndentChoices <- FullIndents
  MaxDepth = 4
  MaxWidth = 3
  MaxEvents = 7
  ScalarKinds <- Kinds
  KeyAtoms <- Keys
INVARIANT TypeOK
INVARIANT StackMirrorsNesting
INVARIANT IndentNonNegative
INVARIANT IndentTracksDepth
INVARIANT OutputIsTheTree
INVARIANT CompactWhenNoIndent
INVARIANT LineBreaksCarryIndent
INVARIANT PrefixWellNested
CONSTRAINT Export
CHECK_DEADLOCK FALSE
