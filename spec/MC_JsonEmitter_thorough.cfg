SPECIFICATION Spec
CONSTANTS
  IndentChoices <- FullIndents
  MaxDepth = 3
  MaxWidth = 3
  MaxEvents = 6
  ScalarKinds <- Kinds
  KeyAtoms <- Keys
INVARIANT TypeOK
INVARIANT StackMirrorsNesting
INVARIANT IndentNonNegative
INVARIANT IndentTracksDepth
INVARIANT OutputIsTheTree
INVARIANT CompactWhenNoIndent
INVARIANT LineBreaksCarryIndent
INVARIANT PrefixWellNested
CONSTRAINT Export
CHECK_DEADLOCK FALSE
