-------------------------- MODULE MC_JsonEmitter --------------------------
(* Bounded exhaustive configuration of JsonEmitter + export of every       *)
(* terminal state (a complete document with the predicted token stream)    *)
(* for replay against dumps_json / dump_json.                              *)
EXTENDS JsonEmitter, Json

QuickIndents == {-1, 0, 1, 2, 3, 9}
FullIndents == -1..10
Kinds == {"str", "null", "bool", "int", "float", "ts"}
Keys == <<"k1", "k2", "k3", "k4">>

Export ==
    Terminal => PrintT(<<"CASE", ToJson([req |-> req, evs |-> evs, out |-> out])>>)
=============================================================================
