----------------------------- MODULE Trace_Dump -----------------------------
(***************************************************************************)
(* Trace validation (code -> spec) for dumping at the grain of public      *)
(* calls: every yaml.dump through a yatiml Dumper that the repository's    *)
(* test suite and documentation examples perform over a hook-free class    *)
(* model (recorded by harness/trace_dump.py: the object graph abstracted   *)
(* into RoundTrip's object heap, the class model extracted from the live   *)
(* Dumper class) is given to RoundTrip's DumpStep: Represent builds the    *)
(* node graph, Recompose reads it back the way the written text is read.   *)
(* The harness compares that graph with the one a plain YAML composer sees *)
(* in the text the code wrote; TLC evaluates TagFree on each execution.    *)
(* Batched: tid chosen in Init, one exported terminal state per trace.     *)
(***************************************************************************)
EXTENDS RoundTrip, TLCExt

Traces == Cat.traces
NT == Len(Traces)

VARIABLE tid
tdvars == <<allvars, tid>>

ASSUME \A i \in 1..NT : TLCSet(i, 0)

TraceInit ==
    /\ tid \in 1..NT
    /\ mi = Traces[tid].mi
    /\ dt = <<"any">>
    /\ heap = <<>> /\ root = 0 /\ doc0 = [h |-> <<>>, r |-> 0]
    /\ open = <<>> /\ nalias = 0
    /\ phase = "idle"
    /\ stack = <<>> /\ ret = <<0, 0>>
    /\ log = <<>> /\ res = <<"NONE">>
    /\ visited = {} /\ shared = FALSE
    /\ oh = Traces[tid].oh /\ oroot = Traces[tid].oroot /\ nreuse = 0
    /\ todo = <<>>
    /\ gphase = "dump"
    /\ dumped = [h |-> <<>>, r |-> 0] /\ dlog = <<>> /\ dex = ""

TraceNext == DumpStep /\ UNCHANGED tid

TraceSpec == TraceInit /\ [][TraceNext]_tdvars

Dumped == gphase \in {"load", "dumpfailed"}
Progress == Dumped => TLCSet(tid, 1)
Export == Dumped => PrintT(<<"CASE", ToJson([tid |-> tid, dex |-> dex, doc |-> doc0])>>)

\* C06 on the recorded executions: no node needs an explicit tag
TraceTagFree == Dumped /\ dex = "" => TagFree

TraceAccepted ==
    LET bad == {i \in 1..NT : TLCGet(i) = 0} IN
    /\ PrintT(<<"TRACES", NT, "UNFINISHED", bad>>)
    /\ bad = {}
=============================================================================
