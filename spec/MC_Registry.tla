---- MODULE MC_Registry ----
EXTENDS Registry
\* class ids: A1 and A2 are two DIFFERENT classes both named "A"
CS == { <<>>, <<"A1">>, <<"A2">>, <<"A1", "B">>, <<"E">>, <<"A1", "S1">>, <<"A2", "S2">>, <<"S1">> }
CSQ == { <<>>, <<"A1", "S1">>, <<"A2", "S2">>, <<"S1">> }
LA == {"x1", "xabc", "tagA", "y2", "r", "bad", "coll", "cyc"}
LAQ == {"x1", "xabc", "bad", "coll", "cyc"}
DA == {"plain", "objA1", "objA2", "enumr", "objS1"}
DAQ == {"plain", "objS1"}
KindsQ == {"load", "dumps", "dumps_json"}
====
