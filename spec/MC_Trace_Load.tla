---- MODULE MC_Trace_Load ----
EXTENDS Trace_Load
NoModels == {}
====
