SPECIFICATION Spec
CONSTANTS
  Threads = {t1, t2}
  Args = {a1}
INVARIANT RaceIsReachable
CHECK_DEADLOCK FALSE
