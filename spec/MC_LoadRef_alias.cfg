SPECIFICATION Spec
CONSTANTS
  MaxNodes = 0
  Tier = "q"
  ModelIds <- AliasModels
  AllowAlias = TRUE
  AllowCycles = TRUE
  AllowEmpty = FALSE
INVARIANT TypeOK
INVARIANT StackDiscipline
CONSTRAINT Export
CHECK_DEADLOCK FALSE
