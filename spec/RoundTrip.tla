----------------------------- MODULE RoundTrip -----------------------------
(***************************************************************************)
(* Dumping (yatiml/representers.py, dumper.py on top of PyYAML's           *)
(* representer/serializer) and the YAML round trip dump ; load.            *)
(*                                                                         *)
(*   gen      : the user's object graph is built (environment), type       *)
(*              directed, with sharing: an object may be referenced twice. *)
(*   dump     : Represent - objects to nodes, attributes in __init__ order,*)
(*              extras appended, PyYAML's represented_objects registry     *)
(*              written when the node is CREATED (before children and      *)
(*              before sweetening), _yatiml_sweeten chain, enum/string-    *)
(*              like/Path as str scalars.                                  *)
(*   recompose: what the text denotes when read back: a scalar is written  *)
(*              plain iff the DUMPER's resolver gives its tag, and a plain *)
(*              scalar is typed by the LOADER's resolver when read.        *)
(*   then the load pipeline of YatimlLoad runs on the recomposed graph.    *)
(***************************************************************************)
EXTENDS LoadRef

CONSTANTS MaxObjs,       \* bound on objects of the value (incl. scalars)
          MaxLen         \* bound on list / dict length

VARIABLES oh,        \* object heap: id -> [k, c, v, f]  kind, class, atom, fields
          oroot,     \* root object
          todo,      \* gen: open obligations [p, i, t]
          nreuse,    \* gen: number of shared references made
          gphase,    \* "gen" | "dump" | "load"
          dumped,    \* the node graph produced by Represent (before recompose)
          dlog,      \* sweeten calls, in order
          dex        \* "" or the exception class raised while dumping

rtvars == <<oh, oroot, todo, nreuse, gphase, dumped, dlog, dex>>
allvars == <<vars, rtvars>>

Obj(k, c, v, f) == [k |-> k, c |-> c, v |-> v, f |-> f]
PrimKinds == {"str", "int", "float", "bool", "null", "date", "datetime"}

Pool(kind) == Range(Cat.pool[kind])
StrPool == IF Len(Mod.strs) > 0 THEN Range(Mod.strs) ELSE Pool("str")

(* ---------------- gen: type-directed construction with sharing ---------- *)
TopOb == todo[Len(todo)]
PopTodo == SubSeq(todo, 1, Len(todo) - 1)
Place(h, ob, id) == IF ob.p = 0 THEN h ELSE [h EXCEPT ![ob.p].f[ob.i] = id]
Size == Len(oh) + nreuse
ObjBound == IF MaxObjs > 0 THEN MaxObjs ELSE IF Tier = "q" THEN Mod.qo ELSE Mod.to
CanGen == gphase = "gen" /\ todo # <<>> /\ Size < ObjBound

GenDone(h) == TRUE

\* a Union obligation is first narrowed to one member
GenPickMember ==
    /\ gphase = "gen" /\ todo # <<>> /\ TopOb.t[1] = "union"
    /\ \E i \in DOMAIN TopOb.t[2] :
          todo' = Append(PopTodo, [TopOb EXCEPT !.t = TopOb.t[2][i]])
    /\ UNCHANGED <<oh, oroot, nreuse, gphase, dumped, dlog, dex, vars>>

AtomsOf(T) ==
    CASE T[1] = "str" -> {<<"str", a>> : a \in StrPool}
      [] T[1] = "int" -> {<<"int", a>> : a \in Pool("int")}
      [] T[1] = "float" -> {<<"float", a>> : a \in Pool("float")}
      [] T[1] \in {"bool", "boolfix"} -> {<<"bool", a>> : a \in Pool("bool")}
      [] T[1] = "null" -> {<<"null", "null">>}
      [] T[1] = "date" -> {<<"date", a>> : a \in Pool("date")}
      [] T[1] = "path" -> {<<"path", a>> : a \in Pool("path")}
      [] T[1] = "any" -> {<<"str", a>> : a \in StrPool} \cup {<<"int", "42">>, <<"null", "null">>}
      [] OTHER -> {}

GenAtom ==
    /\ CanGen
    /\ \E ka \in AtomsOf(TopOb.t) :
         LET id == Len(oh) + 1 IN
         /\ oh' = Place(Append(oh, Obj(ka[1], "", ka[2], <<>>)), TopOb, id)
         /\ oroot' = IF TopOb.p = 0 THEN id ELSE oroot
    /\ todo' = PopTodo
    /\ UNCHANGED <<nreuse, gphase, dumped, dlog, dex, vars>>

GenList ==
    /\ CanGen /\ TopOb.t[1] \in {"list", "any"}
    /\ \E len \in 0..MaxLen :
         LET id == Len(oh) + 1
             et == IF TopOb.t[1] = "any" THEN <<"any">> ELSE TopOb.t[2] IN
         /\ oh' = Place(Append(oh, Obj("list", "", "", [j \in 1..len |-> 0])), TopOb, id)
         /\ oroot' = IF TopOb.p = 0 THEN id ELSE oroot
         /\ todo' = PopTodo \o [j \in 1..len |-> [p |-> id, i |-> len + 1 - j, t |-> et]]
    /\ UNCHANGED <<nreuse, gphase, dumped, dlog, dex, vars>>

\* a dict with distinct keys; str keys are created at once, string-like keys
\* are objects of their own
GenDict ==
    /\ CanGen /\ TopOb.t[1] \in {"dict", "any"}
    /\ \E len \in 0..MaxLen :
         /\ len <= Len(Mod.keys)
         /\ Size + 1 + len <= ObjBound
         /\ LET id == Len(oh) + 1
                kt == IF TopOb.t[1] = "any" THEN <<"str">> ELSE TopOb.t[2]
                vt == IF TopOb.t[1] = "any" THEN <<"any">> ELSE TopOb.t[3]
                keyobj(j) == IF kt[1] = "class"
                             THEN Obj("strlike", kt[2], Mod.keys[j], <<>>)
                             ELSE Obj("str", "", Mod.keys[j], <<>>)
                h1 == Append(oh, Obj("dict", "", "",
                                     [j \in 1..(2 * len) |-> IF j % 2 = 1 THEN id + (j + 1) \div 2 ELSE 0]))
                h2 == h1 \o [j \in 1..len |-> keyobj(j)] IN
            /\ oh' = Place(h2, TopOb, id)
            /\ oroot' = IF TopOb.p = 0 THEN id ELSE oroot
            /\ todo' = PopTodo \o [j \in 1..len |-> [p |-> id, i |-> 2 * (len + 1 - j), t |-> vt]]
    /\ UNCHANGED <<nreuse, gphase, dumped, dlog, dex, vars>>

\* concrete registered classes usable where class c is expected
Concrete(c) == {d \in ClassNames : IsReg(d) /\ ~Cls(d).abstract /\ IsSubclass(d, c)}

\* a default value of the catalogue materialised as (possibly nested) objects:
\* defaults are scalars or None in the catalogue
DefaultObj(d) == IF d[1] = "strlike" THEN Obj("strlike", d[2], d[3], <<>>)
                 ELSE Obj(IF d[1] = "null" THEN "null" ELSE d[1], "",
                          IF d[1] = "null" THEN "null" ELSE d[2], <<>>)

GenObject ==
    /\ CanGen /\ TopOb.t[1] = "class"
    /\ \E d \in Concrete(TopOb.t[2]) :
         LET c == Cls(d)
             id == Len(oh) + 1 IN
         IF c.kind = "enum" THEN
             \E m \in Range(c.members) :
                /\ oh' = Place(Append(oh, Obj("enum", d, m, <<>>)), TopOb, id)
                /\ oroot' = IF TopOb.p = 0 THEN id ELSE oroot
                /\ todo' = PopTodo
         ELSE IF IsStringLike(d) THEN
             \E a \in StrPool \ Range(c.rejects) :
                /\ oh' = Place(Append(oh, Obj("strlike", d, a, <<>>)), TopOb, id)
                /\ oroot' = IF TopOb.p = 0 THEN id ELSE oroot
                /\ todo' = PopTodo
         ELSE
             \* every optional parameter either keeps its default or gets a value;
             \* with _yatiml_extra, zero or one extra attribute of plain data
             \E givenopt \in SUBSET {j \in DOMAIN c.params : ~c.params[j].required} :
             \E nextra \in (IF c.extra THEN {0, 1} ELSE {0}) :
                LET np == Len(c.params)
                    defaulted == {j \in DOMAIN c.params : ~c.params[j].required /\ j \notin givenopt}
                    \* objects for defaulted parameters are appended right after the object
                    dseq == SelectSeq([j \in 1..np |-> j], LAMBDA j : j \in defaulted)
                    didx(j) == CHOOSE x \in DOMAIN dseq : dseq[x] = j
                    f == [j \in 1..(np + nextra) |->
                            IF j <= np /\ j \in defaulted THEN id + didx(j) ELSE 0]
                    h1 == Append(oh, Obj("obj", d, IF nextra = 1 THEN "extra" ELSE "", f))
                    h2 == h1 \o [x \in DOMAIN dseq |-> DefaultObj(c.params[dseq[x]].default)]
                    obs == [j \in 1..(np + nextra) |->
                              [p |-> id, i |-> j,
                               t |-> IF j <= np THEN c.params[j].type ELSE <<"any">>]]
                    open2 == SelectSeq(obs, LAMBDA o : o.i > np \/ o.i \notin defaulted)
                    \* reversed so that the first parameter is generated first
                    rev == [x \in DOMAIN open2 |-> open2[Len(open2) + 1 - x]] IN
                /\ Size + 1 + Len(dseq) <= ObjBound
                /\ oh' = Place(h2, TopOb, id)
                /\ oroot' = IF TopOb.p = 0 THEN id ELSE oroot
                /\ todo' = PopTodo \o rev
    /\ UNCHANGED <<nreuse, gphase, dumped, dlog, dex, vars>>

\* sharing: a second reference to an existing non-scalar object of a fitting kind
Fits(o, T) ==
    CASE T[1] = "class" -> o.k \in {"obj", "enum", "strlike"} /\ IsSubclass(o.c, T[2])
      [] T[1] = "path" -> o.k = "path"
      [] OTHER -> FALSE
GenReuse ==
    /\ CanGen /\ TopOb.p # 0
    /\ \E id \in DOMAIN oh :
         /\ Fits(oh[id], TopOb.t)
         /\ oh' = Place(oh, TopOb, id)
    /\ nreuse' = nreuse + 1
    /\ todo' = PopTodo
    /\ UNCHANGED <<oroot, gphase, dumped, dlog, dex, vars>>

GenFinish ==
    /\ gphase = "gen" /\ todo = <<>> /\ oroot # 0
    /\ gphase' = "dump"
    /\ UNCHANGED <<oh, oroot, todo, nreuse, dumped, dlog, dex, vars>>

(* ---------------- the value an object graph denotes --------------------- *)
PrimTag(k) == CASE k = "date" -> "timestamp" [] k = "datetime" -> "timestamp" [] OTHER -> k

RECURSIVE ValOf(_, _)
ValOf(id, fuel) ==
    LET o == oh[id] IN
    IF fuel = 0 THEN <<"null">>
    ELSE
    CASE o.k \in PrimKinds -> CtorLookup(PrimTag(o.k), o.v)
      [] o.k = "path" -> <<"path", o.v>>
      [] o.k = "enum" -> <<"enum", o.c, o.v>>
      [] o.k = "strlike" -> <<"strlike", o.c, o.v>>
      [] o.k = "list" -> <<"list", [j \in DOMAIN o.f |-> ValOf(o.f[j], fuel - 1)]>>
      [] o.k = "dict" -> <<"dict", [j \in DOMAIN o.f |-> ValOf(o.f[j], fuel - 1)]>>
      [] o.k = "obj" ->
            LET c == Cls(o.c)
                np == Len(c.params)
                kw == [j \in 1..(2 * np) |->
                         IF j % 2 = 1 THEN c.params[(j + 1) \div 2].name
                         ELSE ValOf(o.f[j \div 2], fuel - 1)]
                ex == IF Len(o.f) > np
                      THEN <<<<"str", "xk">>, ValOf(o.f[np + 1], fuel - 1)>> ELSE <<>> IN
            <<"obj", o.c, IF c.extra THEN kw \o <<"_yatiml_extra", <<"odict", ex>>>> ELSE kw>>
      [] OTHER -> <<"null">>

(* ---------------- dump: Represent --------------------------------------- *)
\* state threaded: [nh node heap, reg registry <<oid, nid>>.., lg, ex]
\* ns = TRUE: represent every reference afresh (no registry): the reference
\* for the plain-data projection
DS(nh, reg, lg, ex) == [nh |-> nh, reg |-> reg, lg |-> lg, ex |-> ex, ns |-> FALSE]
DSNoShare == [nh |-> <<>>, reg |-> <<>>, lg |-> <<>>, ex |-> "", ns |-> TRUE]
DR(n, s) == [n |-> n, s |-> s]
RegHas(reg, oid) == \E i \in DOMAIN reg : reg[i][1] = oid
RegGet(reg, oid) == reg[CHOOSE i \in DOMAIN reg : reg[i][1] = oid][2]

\* Representer.__sweeten order: bases that have a representer first
\* (a base reached along two paths is sweetened once, where reached first)
RECURSIVE SweChainRaw(_)
RECURSIVE SweChainBases(_, _)
SweChainBases(bs, i) ==
    IF i > Len(bs) THEN <<>>
    ELSE (IF bs[i] \in ClassNames /\ IsReg(bs[i]) THEN SweChainRaw(bs[i]) ELSE <<>>)
         \o SweChainBases(bs, i + 1)
SweChainRaw(cname) ==
    SweChainBases(Cls(cname).bases, 1) \o (IF Cls(cname).hasswe THEN <<cname>> ELSE <<>>)
SweChain(cname) == FirstOccurrences(SweChainRaw(cname))

\* Node.remove_attributes_with_default_values, as the code does it:
\* compare the node text with the default by the NODE's tag
\* the class-level _yatiml_defaults that hasattr() finds: the class's own, or
\* that of the first base (recursively) that has one
RECURSIVE YDefs(_)
YDefs(cname) ==
    IF Cls(cname).hasydef THEN Cls(cname).ydefaults
    ELSE IF Cls(cname).bases = <<>> THEN <<>>
    ELSE YDefs(Cls(cname).bases[1])
\* introspection.defaulted_attributes: parameters with a signature default,
\* overridden by _yatiml_defaults
DefaultOf(cname, name) ==
    LET S == {j \in DOMAIN Cls(cname).params : Cls(cname).params[j].name = name
                                              /\ ~Cls(cname).params[j].required}
        yd == YDefs(cname)
        Y == {j \in DOMAIN yd : yd[j][1] = name} IN
    IF S = {} THEN <<"nodef">>
    ELSE IF Y # {} THEN yd[CHOOSE j \in Y : TRUE][2]
    ELSE Cls(cname).params[CHOOSE j \in S : TRUE].default

\* result: "match" | "keep"; the parsed value of the node is compared with
\* the default itself (Python equality: 1 == True), it never raises
MatchDefault(node, d) ==
    IF d[1] = "nodef" THEN "keep"
    ELSE IF node.t = "null" THEN (IF d[1] = "null" THEN "match" ELSE "keep")
    ELSE IF node.t = "int" THEN
        (IF d[1] = "int" THEN (IF CtorLookup("int", node.v) = d THEN "match" ELSE "keep")
         ELSE IF d[1] = "bool" THEN
              (IF (node.v = "1" /\ d[2] = "true") \/ (node.v = "0" /\ d[2] = "false")
               THEN "match" ELSE "keep")
         ELSE "keep")
    ELSE IF node.t = "float" THEN
        (IF d[1] = "float" /\ CtorLookup("float", node.v) = d /\ d[2] # "nan" THEN "match"
         ELSE "keep")
    ELSE IF node.t = "bool" THEN
        (IF d[1] = "bool" /\ node.v = d[2] THEN "match" ELSE "keep")
    ELSE IF node.k = "s" THEN
        (IF d[1] = "str" /\ node.v = d[2] THEN "match" ELSE "keep")
    ELSE "keep"

RECURSIVE RemoveDefaults(_, _, _, _, _)
\* returns <<new children, exception>>
RemoveDefaults(h, kids, i, cname, acc) ==
    IF i > Len(kids) THEN <<acc, "">>
    ELSE LET m == MatchDefault(h[kids[i + 1]], DefaultOf(cname, h[kids[i]].v)) IN
         IF m = "match" THEN RemoveDefaults(h, kids, i + 2, cname, acc)
         ELSE IF m = "keep" THEN RemoveDefaults(h, kids, i + 2, cname, acc \o <<kids[i], kids[i + 1]>>)
         ELSE <<acc, m>>

RECURSIVE DashKeys(_, _, _)
Dash(s) ==
    LET S == {i \in DOMAIN Cat.undash : Cat.undash[i][2] = s /\ Cat.undash[i][1] # s} IN
    IF S = {} THEN s ELSE Cat.undash[CHOOSE i \in S : TRUE][1]
DashKeys(h, kids, i) ==
    IF i > Len(kids) THEN h
    ELSE DashKeys([h EXCEPT ![kids[i]].v = Dash(h[kids[i]].v)], kids, i + 2)

\* Node.index_attribute_to_map(attr, key_attribute, value_attribute): the key
\* attribute is filtered out of every inner mapping (in place); an inner mapping
\* left with the value attribute alone is replaced by that value
RECURSIVE DropKey(_, _, _, _)
DropKey(h, c, i, keyattr) ==
    IF i > Len(c) THEN <<>>
    ELSE (IF h[c[i]].k = "s" /\ h[c[i]].v = keyattr THEN <<>> ELSE <<c[i], c[i + 1]>>)
         \o DropKey(h, c, i + 2, keyattr)
RECURSIVE IndexToMapFold(_, _, _, _, _, _)
IndexToMapFold(h, kids, i, keyattr, valattr, acc) ==
    IF i > Len(kids) THEN [h |-> h, c |-> acc]
    ELSE LET inner == kids[i + 1]
             f == DropKey(h, h[inner].c, 1, keyattr)
             h1 == [h EXCEPT ![inner].c = f]
             collapse == valattr # "" /\ Len(f) = 2 /\ h[f[1]].k = "s" /\ h[f[1]].v = valattr IN
         IndexToMapFold(h1, kids, i + 2, keyattr, valattr,
                        acc \o <<kids[i], IF collapse THEN f[2] ELSE inner>>)

\* sweeten effects
ApplySweeten(h, n, e) ==
    CASE e[1] = "remove_defaults" ->
            IF h[n].k = "m"
            THEN LET r == RemoveDefaults(h, h[n].c, 1, e[2], <<>>) IN
                 IF r[2] # "" THEN ER(h, n, r[2])
                 ELSE ER([h EXCEPT ![n].c = r[1]], n, "")
            ELSE ER(h, n, "")
      [] e[1] = "unders_to_dashes" ->
            IF h[n].k = "m" THEN ER(DashKeys(h, h[n].c, 1), n, "") ELSE ER(h, n, "")
      [] e[1] = "mapping_to_scalar" ->
            \* parsed-class recipe: node.set_value(text of attribute)
            IF h[n].k = "m" /\ KeyPos(h, n, e[2]) # {}
            THEN ER(Append(h, Node("s", "str", h[AttrVal(h, n, e[2])].v, <<>>)), NewId(h), "")
            ELSE ER(h, n, "")
      [] e[1] = "index_to_map" ->
            IF h[n].k # "m" \/ KeyPos(h, n, e[2]) = {} THEN ER(h, n, "")
            ELSE IF ~AttrUnique(h, n, e[2]) THEN ER(h, n, "Other:SeasoningError")
            ELSE LET av == AttrVal(h, n, e[2]) IN
                 IF h[av].k # "m" \/ \E i \in DOMAIN h[av].c : i % 2 = 0 /\ h[h[av].c[i]].k # "m"
                 THEN ER(h, n, "")
                 ELSE LET r == IndexToMapFold(h, h[av].c, 1, e[3], e[4], <<>>) IN
                      ER([r.h EXCEPT ![av].c = r.c], n, "")
      [] OTHER -> ApplyEffect(h, n, e)

\* after sweetening, the registry entry of the object is pointed to the
\* (possibly replaced) sweetened node, so that later references reuse it
ReReg(oid, r) ==
    DR(r.n, [r.s EXCEPT !.reg = [i \in DOMAIN r.s.reg |->
                                    IF r.s.reg[i][1] = oid THEN <<oid, r.n>> ELSE r.s.reg[i]]])

RECURSIVE Represent(_, _, _)
RECURSIVE RepKids(_, _, _, _, _)
RECURSIVE RunSweeten(_, _, _, _)

RepKids(fs, i, acc, s, fuel) ==
    IF i > Len(fs) THEN DR(acc, s)
    ELSE LET r == Represent(fs[i], s, fuel - 1) IN
         RepKids(fs, i + 1, Append(acc, r.n), r.s, fuel)

RunSweeten(chain, i, n, s) ==
    IF i > Len(chain) \/ s.ex # "" THEN DR(n, s)
    ELSE LET e == ApplySweeten(s.nh, n, Cls(chain[i]).swe)
             s2 == [s EXCEPT !.nh = e.h, !.lg = Append(@, <<"swe", chain[i]>>),
                             !.ex = e.ex] IN
         RunSweeten(chain, i + 1, e.n, s2)

Represent(oid, s, fuel) ==
    LET o == oh[oid] IN
    IF fuel = 0 \/ s.ex # "" THEN DR(0, s)
    ELSE IF o.k \in PrimKinds THEN
        \* SafeRepresenter.ignore_aliases: never shared
        DR(Len(s.nh) + 1, [s EXCEPT !.nh = Append(@, Node("s", PrimTag(o.k), o.v, <<>>))])
    ELSE IF o.k = "enum" THEN
        \* EnumRepresenter builds the node itself: not registered, never an alias
        DR(Len(s.nh) + 1, [s EXCEPT !.nh = Append(@, Node("s", "str", o.v, <<>>))])
    ELSE IF ~s.ns /\ RegHas(s.reg, oid) THEN DR(RegGet(s.reg, oid), s)          \* alias
    ELSE IF o.k \in {"strlike", "path"} THEN
        LET n == Len(s.nh) + 1
            s1 == [s EXCEPT !.nh = Append(@, Node("s", "str", o.v, <<>>)),
                            !.reg = Append(@, <<oid, n>>)] IN
        IF o.k = "strlike" THEN ReReg(oid, RunSweeten(SweChain(o.c), 1, n, s1)) ELSE DR(n, s1)
    ELSE IF o.k = "list" THEN
        LET n == Len(s.nh) + 1
            s1 == [s EXCEPT !.nh = Append(@, Node("q", "seq", "", <<>>)),
                            !.reg = Append(@, <<oid, n>>)]
            r == RepKids(o.f, 1, <<>>, s1, fuel) IN
        DR(n, [r.s EXCEPT !.nh[n].c = r.n])
    ELSE IF o.k = "dict" THEN
        LET n == Len(s.nh) + 1
            s1 == [s EXCEPT !.nh = Append(@, Node("m", "map", "", <<>>)),
                            !.reg = Append(@, <<oid, n>>)]
            r == RepKids(o.f, 1, <<>>, s1, fuel) IN
        DR(n, [r.s EXCEPT !.nh[n].c = r.n])
    ELSE \* obj: attributes in __init__ order, extras appended
        LET c == Cls(o.c)
            np == Len(c.params)
            n == Len(s.nh) + 1
            s1 == [s EXCEPT !.nh = Append(@, Node("m", "map", "", <<>>)),
                            !.reg = Append(@, <<oid, n>>)]
            \* key nodes are plain str scalars created by represent_mapping.
            \* The attributes are the __init__ parameters in order, then the
            \* extras - or whatever _yatiml_attributes() returns, in its order
            ParamIdx(nm) == CHOOSE j \in 1..np : c.params[j].name = nm
            order == IF Len(c.yattrs) > 0 THEN [j \in DOMAIN c.yattrs |-> ParamIdx(c.yattrs[j])]
                     ELSE [j \in 1..Len(o.f) |-> j]
            names == [j \in 1..Len(o.f) |-> IF j <= np THEN c.params[j].name ELSE "xk"]
            RECURSIVE Attrs(_, _, _)
            Attrs(jj, acc, st) ==
                IF jj > Len(order) THEN DR(acc, st)
                ELSE LET j == order[jj]
                         kn == Len(st.nh) + 1
                         st1 == [st EXCEPT !.nh = Append(@, Node("s", "str", names[j], <<>>))]
                         r == Represent(o.f[j], st1, fuel - 1) IN
                     Attrs(jj + 1, acc \o <<kn, r.n>>, r.s)
            r == Attrs(1, <<>>, s1)
            s2 == [r.s EXCEPT !.nh[n].c = r.n] IN
        ReReg(oid, RunSweeten(SweChain(o.c), 1, n, s2))

(* ---------------- recompose: what the emitted text denotes --------------- *)
DImplicit(val) ==
    LET S == {i \in DOMAIN Cat.dimplicit : Cat.dimplicit[i][1] = val} IN
    IF S = {} THEN "str" ELSE Cat.dimplicit[CHOOSE i \in S : TRUE][2]

\* the tag a scalar node has after emitting and composing again
RetagScalar(nd) ==
    IF DImplicit(nd.v) = nd.t THEN Implicit(nd.v)       \* written plain
    ELSE nd.t                                           \* quoted str, or explicit tag
Recompose(h) == [i \in DOMAIN h |-> IF h[i].k = "s" THEN [h[i] EXCEPT !.t = RetagScalar(h[i])]
                                     ELSE h[i]]

DumpStep ==
    /\ gphase = "dump"
    /\ LET r == Represent(oroot, DS(<<>>, <<>>, <<>>, ""), 2 * Len(oh) + 2) IN
       /\ dlog' = r.s.lg
       /\ dex' = r.s.ex
       /\ dumped' = [h |-> r.s.nh, r |-> r.n]
       /\ IF r.s.ex # ""
          THEN /\ gphase' = "dumpfailed"
               /\ UNCHANGED vars
          ELSE /\ gphase' = "load"
               /\ heap' = Recompose(r.s.nh)
               /\ root' = r.n
               /\ doc0' = [h |-> Recompose(r.s.nh), r |-> r.n]
               /\ IF Cyclic(Recompose(r.s.nh), r.n, {})
                  THEN /\ phase' = "failed"
                       /\ res' = <<"ERR", {"RecErr"}, {}, {}>>
                       /\ UNCHANGED stack
                  ELSE /\ phase' = "process"
                       /\ stack' = <<Frame(r.n, dt, 0)>>
                       /\ UNCHANGED res
               /\ UNCHANGED <<mi, dt, open, nalias, ret, log, visited, shared>>
    /\ UNCHANGED <<oh, oroot, todo, nreuse>>

LoadStep ==
    /\ gphase = "load"
    /\ \/ Recognise \/ CallSavorize \/ SavorizeDone \/ Descend \/ Resume \/ Finish \/ Construct
    /\ UNCHANGED rtvars

RTInit ==
    /\ mi \in ModelIdx
    /\ dt \in Range(Cat.models[mi].doctypes)
    /\ heap = <<>> /\ root = 0 /\ doc0 = [h |-> <<>>, r |-> 0]
    /\ open = <<>> /\ nalias = 0
    /\ phase = "idle"
    /\ stack = <<>> /\ ret = <<0, 0>>
    /\ log = <<>> /\ res = <<"NONE">>
    /\ visited = {} /\ shared = FALSE
    /\ oh = <<>> /\ oroot = 0 /\ nreuse = 0
    /\ todo = <<[p |-> 0, i |-> 0, t |-> dt]>>
    /\ gphase = "gen"
    /\ dumped = [h |-> <<>>, r |-> 0] /\ dlog = <<>> /\ dex = ""

RTNext ==
    \/ GenPickMember \/ GenAtom \/ GenList \/ GenDict \/ GenObject \/ GenReuse \/ GenFinish
    \/ DumpStep \/ LoadStep

RTSpec == RTInit /\ [][RTNext]_allvars

RTTerminal == gphase = "dumpfailed" \/ (gphase = "load" /\ phase \in {"done", "failed"})

(* ======================= properties ===================================== *)
\* C06: no explicit tags: every node carries the tag its kind implies, i.e.
\* the serializer never has to write one
RECURSIVE Reachable(_, _, _)
Reachable(h, n, seen) ==
    IF n \in seen THEN seen
    ELSE LET kids == h[n].c
             RECURSIVE Go(_, _)
             Go(i, acc) == IF i > Len(kids) THEN acc ELSE Go(i + 1, Reachable(h, kids[i], acc)) IN
         Go(1, seen \cup {n})

TagFree ==
    gphase \in {"load"} =>
        \A n \in Reachable(dumped.h, dumped.r, {}) :
            LET nd == dumped.h[n] IN
            /\ nd.k = "q" => nd.t = "seq"
            /\ nd.k = "m" => nd.t = "map"
            /\ nd.k = "s" => nd.t \in {"str", "int", "float", "bool", "null", "timestamp"}

\* C06: read by a plain parser (aliases expanded) the document is the
\* projection of the object: every reference to an object shows the same,
\* sweetened, data
RECURSIVE PlainTree(_, _, _)
PlainTree(h, n, fuel) ==
    IF fuel = 0 THEN <<"cut">>
    ELSE IF h[n].k = "s" THEN <<"s", h[n].t, h[n].v>>
    ELSE <<h[n].k, [i \in DOMAIN h[n].c |-> PlainTree(h, h[n].c[i], fuel - 1)]>>

ProjectionFaithful ==
    gphase = "load" =>
        LET r == Represent(oroot, DSNoShare, 2 * Len(oh) + 2) IN
        PlainTree(dumped.h, dumped.r, 2 * Len(oh) + 4) = PlainTree(r.s.nh, r.n, 2 * Len(oh) + 4)

\* C06: the object graph is never written by dump actions
DumpIsPure == [][gphase = "dump" => oh' = oh /\ oroot' = oroot]_allvars

\* known deviations
\* F7 on the dumping side: a string-like / Path object referenced twice is
\*     written with an anchor, which the loader cannot read back
DevSharedScalarObject ==
    \E i \in DOMAIN oh : oh[i].k \in {"strlike", "path"} /\
        Cardinality({<<p, j>> \in (DOMAIN oh) \X (1..20) :
                        j \in DOMAIN oh[p].f /\ oh[p].f[j] = i}) > 1

\* values compared with omitted optional parameters taking their defaults
\* and keyword arguments in declaration order
DefVal(d) == IF d[1] = "null" THEN <<"null">> ELSE d
KwIdx(kw, name) == {i \in DOMAIN kw : i % 2 = 1 /\ kw[i] = name}
RECURSIVE Norm(_)
Norm(v) ==
    CASE v[1] = "list" -> <<"list", [i \in DOMAIN v[2] |-> Norm(v[2][i])]>>
      [] v[1] \in {"dict", "odict"} -> <<v[1], [i \in DOMAIN v[2] |-> Norm(v[2][i])]>>
      [] v[1] = "obj" ->
            LET c == Cls(v[2])
                np == Len(c.params)
                val(j) == LET S == KwIdx(v[3], c.params[j].name) IN
                          IF S = {} THEN DefVal(c.params[j].default)
                          ELSE Norm(v[3][(CHOOSE i \in S : TRUE) + 1])
                ex == LET S == KwIdx(v[3], "_yatiml_extra") IN
                      IF S = {} THEN <<>> ELSE <<"_yatiml_extra", Norm(v[3][(CHOOSE i \in S : TRUE) + 1])>> IN
            <<"obj", v[2], [j \in 1..(2 * np) |-> IF j % 2 = 1 THEN c.params[(j + 1) \div 2].name
                                                   ELSE val(j \div 2)] \o ex>>
      [] OTHER -> v

\* C05: load(dumps(value)) = value
RoundTripHolds ==
    gphase = "load" /\ phase \in {"done", "failed"}
    /\ dt \in Range(Mod.rtypes)          \* the model is unambiguous for this type
    /\ ~DevSharedScalarObject /\ ~DevAliasRevisit =>
        /\ phase = "done"
        /\ Norm(res[2]) = Norm(ValOf(oroot, 2 * Len(oh) + 2))
DumpNeverFails == gphase # "dumpfailed"
=============================================================================
