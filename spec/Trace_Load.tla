----------------------------- MODULE Trace_Load -----------------------------
(***************************************************************************)
(* Trace validation (code -> spec) for the load pipeline at the grain of   *)
(* public calls: every load the repository's own test suite performs       *)
(* (recorded by harness/verif_pytest_plugin.py: the class model extracted  *)
(* from the live Loader class, the composed document, the constructor      *)
(* calls made and the outcome) must be a behaviour of YatimlLoad: TLC runs *)
(* the pipeline actions on the recorded document with the extracted class  *)
(* model and compares the terminal state with what the code did, and it    *)
(* also evaluates the model-level properties on these executions.          *)
(* Batched: tid chosen in Init, verdict per trace in TLC registers:        *)
(*   0 not finished, 1 accepted, 2 rejected (outcome differs),             *)
(*   3 inconclusive (the code failed where the model loads: user code)     *)
(***************************************************************************)
EXTENDS LoadRef, TLCExt

Traces == Cat.traces
NT == Len(Traces)

VARIABLE tid
tvars == <<vars, tid>>

ASSUME \A i \in 1..NT : TLCSet(i, 0)

TraceInit ==
    /\ tid \in 1..NT
    /\ mi = Traces[tid].mi
    /\ dt = Traces[tid].dt
    /\ heap = IF Traces[tid].root = 0 THEN <<Node("s", "null", "", <<>>)>> ELSE Traces[tid].heap
    /\ root = IF Traces[tid].root = 0 THEN 1 ELSE Traces[tid].root
    /\ doc0 = [h |-> Traces[tid].heap, r |-> Traces[tid].root]
    /\ open = <<>> /\ nalias = 0
    /\ IF Traces[tid].root # 0 /\ Cyclic(Traces[tid].heap, Traces[tid].root, {})
       THEN /\ phase = "failed" /\ res = <<"ERR", {"RecErr"}, {}, {}>> /\ stack = <<>>
       ELSE /\ phase = "process" /\ res = <<"NONE">>
            /\ stack = <<Frame(IF Traces[tid].root = 0 THEN 1 ELSE Traces[tid].root, Traces[tid].dt, 0)>>
    /\ ret = <<0, 0>> /\ log = <<>>
    /\ visited = {} /\ shared = FALSE

TraceNext ==
    /\ \/ Recognise \/ CallSavorize \/ SavorizeDone \/ Descend \/ Resume \/ Finish \/ Construct
    /\ UNCHANGED tid

TraceSpec == TraceInit /\ [][TraceNext]_tvars

InitLog == SelectSeq(log, LAMBDA e : e[1] = "init")

\* the verdict for this trace, once the pipeline has finished
Verdict ==
    LET t == Traces[tid] IN
    IF res[1] = "VAL" THEN
        (IF t.outcome = "VAL" THEN 1 ELSE 3)                      \* the code failed: a user constructor may have refused
    ELSE (IF t.outcome = "ERR" THEN 1 ELSE 2)

Progress == Terminal => TLCSet(tid, Verdict)
\* the value the model constructs goes to the harness, which compares it with
\* the object the code returned (attribute by attribute)
Export == Terminal => PrintT(<<"CASE", ToJson([tid |-> tid, res |-> res, ref |-> RefDoc(doc0),
                                               shared |-> shared])>>)

\* the model-level properties hold on the recorded executions as well
TraceTypeSafe == TypeSafe
TraceMatchesReference == MatchesReference
TraceOnlyDocumentedErrors == OnlyDocumentedErrors

TraceAccepted ==
    LET bad == {i \in 1..NT : TLCGet(i) \in {0, 2}}
        inc == {i \in 1..NT : TLCGet(i) = 3} IN
    /\ PrintT(<<"TRACES", NT, "REJECTED", bad, "INCONCLUSIVE", inc>>)
    /\ bad = {}
=============================================================================
