------------------------------ MODULE LoadRef ------------------------------
(***************************************************************************)
(* The declarative reference for loading, written from the documentation   *)
(* and deliberately NOT shaped like the code: it works on the document as  *)
(* composed (never mutated), follows every reference afresh (so aliases    *)
(* are transparent by construction), treats Union members and registered   *)
(* classes as SETS (so their order cannot matter) and looks attributes up  *)
(* by name.  The model-level theorems state that the operational pipeline  *)
(* of YatimlLoad agrees with it.                                           *)
(***************************************************************************)
EXTENDS YatimlLoad

(* ---------------- conformance of a value to a type (C01) ---------------- *)
ScalarKinds == {"str", "int", "float", "bool", "null", "date", "datetime", "bytes"}

RECURSIVE Plain(_)
Plain(v) ==
    \/ v[1] \in ScalarKinds
    \/ v[1] = "list" /\ \A i \in DOMAIN v[2] : Plain(v[2][i])
    \/ v[1] \in {"dict", "odict"} /\ \A i \in DOMAIN v[2] : Plain(v[2][i])

RECURSIVE Conforms(_, _)
Conforms(v, T) ==
    CASE T[1] = "str" -> v[1] = "str"
      [] T[1] = "int" -> v[1] = "int"
      [] T[1] = "float" -> v[1] = "float"
      [] T[1] \in {"bool", "boolfix"} -> v[1] = "bool"
      [] T[1] = "null" -> v[1] = "null"
      [] T[1] = "date" -> v[1] \in {"date", "datetime"}
      [] T[1] = "path" -> v[1] = "path"
      [] T[1] = "any" -> Plain(v)
      [] T[1] = "list" -> v[1] = "list" /\ \A i \in DOMAIN v[2] : Conforms(v[2][i], T[2])
      [] T[1] = "dict" ->
            /\ v[1] = "dict"
            /\ \A i \in DOMAIN v[2] : Conforms(v[2][i], IF i % 2 = 1 THEN T[2] ELSE T[3])
      [] T[1] = "union" -> \E i \in DOMAIN T[2] : Conforms(v, T[2][i])
      [] T[1] = "class" ->
            /\ v[1] \in {"obj", "enum", "strlike"}
            /\ v[2] \in ClassNames /\ IsReg(v[2]) /\ ~Cls(v[2]).abstract
            /\ IsSubclass(v[2], T[2])
            /\ v[1] = "obj" =>
                 \A i \in DOMAIN v[3] : i % 2 = 1 =>
                    IF v[3][i] = "_yatiml_extra"
                    THEN /\ Cls(v[2]).extra
                         /\ v[3][i + 1][1] = "odict"
                         /\ \A j \in DOMAIN v[3][i + 1][2] :
                               IF j % 2 = 1 THEN v[3][i + 1][2][j][1] = "str"
                               ELSE Plain(v[3][i + 1][2][j])
                    ELSE /\ v[3][i] \in ParamNames(v[2])
                         /\ Conforms(v[3][i + 1], ParamOf(v[2], v[3][i]).type)
      [] OTHER -> FALSE

(* ---------------- which classes / types does a node match? -------------- *)
\* classes reachable from c through "registered class with c as a direct base"
RECURSIVE Reach(_)
Reach(c) == {c} \cup UNION {Reach(d) : d \in Range(RegSubs(c))}
ProperReach(c) == UNION {Reach(d) : d \in Range(RegSubs(c))}

RECURSIVE Cand(_, _, _)
RECURSIVE ClassMatch(_, _, _)

\* first of (name, dashed name) that is present, "" if neither
PresentName(h, n, p) ==
    IF HasAttr(h, n, p.name) THEN p.name ELSE IF HasAttr(h, n, p.dname) THEN p.dname ELSE ""

RecogPred(h, n, cname) ==
    LET e == Cls(cname).recog IN
    CASE e[1] = "permissive" -> TRUE
      [] e[1] = "reject" -> FALSE
      [] e[1] = "require_mapping" -> h[n].k = "m"
      [] e[1] = "require_scalar_str" -> h[n].k = "s" /\ h[n].t = "str"
      [] e[1] = "require_attr" -> h[n].k = "m" /\ HasAttr(h, n, e[2])
      [] e[1] = "require_attr_type" ->
            h[n].k = "m" /\ HasAttr(h, n, e[2]) /\ Cand(h, AttrVal(h, n, e[2]), e[3]) # {}
      [] e[1] = "require_value" ->
            LET ps == {i \in KeyPos(h, n, e[2]) : h[h[n].c[i]].t = "str"} IN
            /\ h[n].k = "m" /\ ps # {}
            /\ \A i \in ps : LET vn == h[h[n].c[i + 1]] IN
                              vn.k = "s" /\ vn.t = e[3] /\ vn.v = e[4]
      [] OTHER -> FALSE

ClassMatch(h, n, cname) ==
    LET c == Cls(cname) IN
    IF c.hasrecog THEN RecogPred(h, n, cname)
    ELSE IF c.kind = "enum" THEN h[n].k = "s" /\ h[n].t \in {"str", "bool"}
    ELSE IF IsStringLike(cname) THEN h[n].k = "s" /\ h[n].t = "str"
    ELSE /\ h[n].k = "m"
         /\ \A i \in DOMAIN c.params :
               LET p == c.params[i]
                   name == PresentName(h, n, p) IN
               IF name = "" THEN ~p.required
               ELSE AttrUnique(h, n, name) /\ Cand(h, AttrVal(h, n, name), p.type) # {}

\* the classes a node is loaded as where class c is expected: the most
\* derived matching concrete registered classes, or the class named by a tag
ClassCands(h, n, c) ==
    LET tag == h[n].t
        ok(d) == ~Cls(d).abstract /\ ClassMatch(h, n, d) IN
    IF IsCore(tag) THEN
        {d \in Reach(c) : ok(d) /\ ~\E e \in ProperReach(d) : ok(e)}
    ELSE LET x == TagClass(tag) IN
         IF x # "" /\ x \in Reach(c) /\ ok(x) THEN {x} ELSE {}

Cand(h, n, T) ==
    IF IsScalarType(T) THEN (IF h[n].k = "s" /\ h[n].t = TypeTag(T) THEN {T} ELSE {})
    ELSE IF T[1] = "path" THEN (IF h[n].k = "s" /\ h[n].t = "str" THEN {T} ELSE {})
    ELSE IF T[1] = "any" THEN {T}
    ELSE IF T[1] = "union" THEN
        LET u == UNION {Cand(h, n, T[2][i]) : i \in DOMAIN T[2]} IN
        IF <<"bool">> \in u THEN u \ {<<"boolfix">>} ELSE u
    ELSE IF T[1] = "list" THEN
        (IF h[n].k = "q" /\ h[n].t = "seq" /\ \A i \in DOMAIN h[n].c : Cand(h, h[n].c[i], T[2]) # {}
         THEN {T} ELSE {})
    ELSE IF T[1] = "dict" THEN
        (IF h[n].k = "m" /\ h[n].t = "map" /\ \A i \in DOMAIN h[n].c :
                Cand(h, h[n].c[i], IF i % 2 = 1 THEN T[2] ELSE T[3]) # {}
         THEN {T} ELSE {})
    ELSE IF T[1] = "class" /\ T[2] \in ClassNames /\ IsReg(T[2]) THEN
        {<<"class", d>> : d \in ClassCands(h, n, T[2])}
    ELSE {}

(* ---------------- the value a document denotes -------------------------- *)
RERR == <<"ERR">>
RV(v) == <<"VAL", v>>

RECURSIVE RefPlain(_, _, _)        \* plain data below Any / extra attributes
RECURSIVE RefLoad(_, _, _, _)
RECURSIVE RefSeq(_, _, _, _, _, _)
RECURSIVE RefPairs(_, _, _, _, _, _)
RECURSIVE RefAttrs(_, _, _, _, _, _, _)
RECURSIVE RefSavorize(_, _, _, _)

\* generic fold: T = <<"plain">> loads plain data, otherwise typed
RefSeq(h, kids, i, T, acc, fuel) ==
    IF i > Len(kids) THEN RV(acc)
    ELSE LET r == IF T[1] = "plain" THEN RefPlain(h, kids[i], fuel - 1)
                  ELSE RefLoad(h, kids[i], T, fuel - 1) IN
         IF r[1] = "ERR" THEN RERR ELSE RefSeq(h, kids, i + 1, T, Append(acc, r[2]), fuel)

RefPairs(h, kids, i, T, acc, fuel) ==
    IF i > Len(kids) THEN RV(acc)
    ELSE LET rk == IF T[1] = "plain" THEN RefPlain(h, kids[i], fuel - 1)
                   ELSE RefLoad(h, kids[i], T[2], fuel - 1)
             rv == IF T[1] = "plain" THEN RefPlain(h, kids[i + 1], fuel - 1)
                   ELSE RefLoad(h, kids[i + 1], T[3], fuel - 1) IN
         IF rk[1] = "ERR" \/ rv[1] = "ERR" THEN RERR
         ELSE IF ~Hashable(rk[2]) THEN RERR
         ELSE RefPairs(h, kids, i + 2, T, PutPair(acc, 1, rk[2], rv[2]), fuel)

RefPlain(h, n, fuel) ==
    IF fuel <= 0 THEN RERR
    ELSE IF h[n].k = "s" THEN
        LET tag == IF IsCore(h[n].t) THEN h[n].t ELSE Implicit(h[n].v)
            v == CtorLookup(tag, h[n].v) IN
        IF tag \notin {"str", "int", "float", "bool", "null", "timestamp"} THEN RERR
        ELSE IF v[1] = "ERR" THEN RERR ELSE RV(v)
    ELSE IF h[n].k = "q" THEN
        LET r == RefSeq(h, h[n].c, 1, <<"plain">>, <<>>, fuel) IN
        IF r[1] = "ERR" THEN RERR ELSE RV(<<"list", r[2]>>)
    ELSE LET fk == IF HasMergeKey(h, n) THEN FlatKids(h, n, fuel) ELSE h[n].c IN
         \* plain data below Any: merge keys are resolved as PyYAML does
         IF fk = BadMerge THEN RERR
         ELSE LET r == RefPairs(h, fk, 1, <<"plain">>, <<>>, fuel) IN
              IF r[1] = "ERR" THEN RERR ELSE RV(<<"dict", r[2]>>)

\* apply the savorize functions of the registered ancestors and of the class
RefSavorize(h, n, chain, i) ==
    IF i > Len(chain) THEN ER(h, n, "")
    ELSE LET e == ApplyEffect(h, n, Cls(chain[i]).sav) IN
         IF e.ex # "" THEN e ELSE RefSavorize(e.h, e.n, chain, i + 1)

\* attributes of a class mapping, in document order, looked up by name
RefAttrs(h, n, cname, i, main, extra, fuel) ==
    LET kids == h[n].c IN
    IF i > Len(kids) THEN
        RV(IF Cls(cname).extra THEN main \o <<"_yatiml_extra", <<"odict", extra>>>> ELSE main)
    ELSE LET kn == h[kids[i]] IN
         IF ~(kn.k = "s" /\ kn.t = "str") THEN RERR                  \* string keys only
         ELSE IF kn.v \in ParamNames(cname) THEN
              (IF ~AttrUnique(h, n, kn.v) THEN RERR
               ELSE LET r == RefLoad(h, kids[i + 1], ParamOf(cname, kn.v).type, fuel - 1) IN
                    IF r[1] = "ERR" THEN RERR
                    ELSE RefAttrs(h, n, cname, i + 2, main \o <<kn.v, r[2]>>, extra, fuel))
         ELSE IF ~Cls(cname).extra THEN RERR                          \* unknown attribute
         ELSE LET r == RefPlain(h, kids[i + 1], fuel - 1) IN
              IF r[1] = "ERR" THEN RERR
              ELSE RefAttrs(h, n, cname, i + 2, main,
                            PutPair(extra, 1, <<"str", kn.v>>, r[2]), fuel)

RefLoad(h, n, T, fuel) ==
    IF fuel <= 0 THEN RERR
    ELSE
    LET cs == Cand(h, n, T) IN
    IF Cardinality(cs) # 1 THEN RERR            \* not recognised, or ambiguous
    ELSE
    LET R == CHOOSE t \in cs : TRUE IN
    IF IsScalarType(R) THEN
        LET v == CtorLookup(TypeTag(R), h[n].v) IN IF v[1] = "ERR" THEN RERR ELSE RV(v)
    ELSE IF R[1] = "path" THEN RV(<<"path", h[n].v>>)
    ELSE IF R[1] = "any" THEN RefPlain(h, n, fuel)
    ELSE IF R[1] = "list" THEN
        (IF h[n].t # "seq" THEN RERR
         ELSE LET r == RefSeq(h, h[n].c, 1, R[2], <<>>, fuel) IN
              IF r[1] = "ERR" THEN RERR ELSE RV(<<"list", r[2]>>))
    ELSE IF R[1] = "dict" THEN
        (IF h[n].t # "map" THEN RERR
         ELSE LET r == RefPairs(h, h[n].c, 1, R, <<>>, fuel) IN
              IF r[1] = "ERR" THEN RERR ELSE RV(<<"dict", r[2]>>))
    ELSE \* a registered class
    LET cname == R[2]
        c == Cls(cname)
        sv == RefSavorize(h, n, SavChain(cname), 1) IN
    IF sv.ex # "" THEN RERR
    ELSE
    LET h2 == sv.h
        n2 == sv.n IN
    IF c.kind = "enum" THEN
        (IF h2[n2].k = "s" /\ \E i \in DOMAIN c.members : c.members[i] = h2[n2].v
         THEN RV(<<"enum", cname, h2[n2].v>>) ELSE RERR)
    ELSE IF IsStringLike(cname) THEN
        (IF h2[n2].k = "s" /\ ~\E i \in DOMAIN c.rejects : c.rejects[i] = h2[n2].v
         THEN RV(<<"strlike", cname, h2[n2].v>>) ELSE RERR)
    ELSE IF h2[n2].k # "m" THEN RERR
    ELSE IF \E i \in DOMAIN c.params : c.params[i].required /\ ~HasAttr(h2, n2, c.params[i].name)
         THEN RERR                                                   \* missing attribute
    ELSE LET r == RefAttrs(h2, n2, cname, 1, <<>>, <<>>, fuel) IN
         IF r[1] = "ERR" \/ c.initraises THEN RERR
         ELSE IF c.raisesif # <<>> /\ KwHas(r[2], c.raisesif[1], c.raisesif[2]) THEN RERR
         ELSE RV(<<"obj", cname, r[2]>>)

\* the alias-expanded document needs no special treatment: RefLoad follows
\* every reference afresh and never writes.  Cyclic documents are errors.
RefDoc(d) ==
    IF d.r = 0 THEN RefLoad(<<Node("s", "null", "", <<>>)>>, 1, dt, 4)
    ELSE IF Cyclic(d.h, d.r, {}) THEN RERR
    ELSE RefLoad(d.h, d.r, dt, Fuel(d.h) + 4)

(* ---------------- order-free comparison of values ----------------------- *)
RECURSIVE Unordered(_)
\* mappings / keyword arguments as SETS of pairs
Unordered(v) ==
    CASE v[1] = "list" -> <<"list", [i \in DOMAIN v[2] |-> Unordered(v[2][i])]>>
      [] v[1] \in {"dict", "odict"} ->
            <<v[1], {<<v[2][i], Unordered(v[2][i + 1])>> : i \in {j \in DOMAIN v[2] : j % 2 = 1}}>>
      [] v[1] = "obj" ->
            <<"obj", v[2], {<<v[3][i], Unordered(v[3][i + 1])>> : i \in {j \in DOMAIN v[3] : j % 2 = 1}}>>
      [] OTHER -> v

(* ---------------- meaning-preserving document transformation (C13) ------ *)
RECURSIVE ReversePairs(_)
ReversePairs(c) ==
    IF Len(c) <= 2 THEN c ELSE ReversePairs(SubSeq(c, 3, Len(c))) \o SubSeq(c, 1, 2)
\* reverse the key order of every mapping of the document
ReverseMaps(d) ==
    [h |-> [i \in DOMAIN d.h |-> IF d.h[i].k = "m"
                                  THEN [d.h[i] EXCEPT !.c = ReversePairs(d.h[i].c)]
                                  ELSE d.h[i]],
     r |-> d.r]

(* ---------------- known deviations (see known_findings.json) ------------ *)
\* F7: a node reached through an alias had already been rewritten in place
\*     by its first visit (AliasRevisitOfRetaggedNode)
DevAliasRevisit == shared

(* ======================= the properties ================================= *)
\* C01: a loaded value conforms to the declared type all the way down ...
TypeSafe ==
    phase = "done" /\ ~DevAliasRevisit => Conforms(res[2], dt)
\* ... and so did the arguments of every constructor call made on the way,
\* also in loads that fail later
CtorArgsConform ==
    ~DevAliasRevisit =>
    \A i \in DOMAIN log : log[i][1] = "init" =>
        /\ log[i][2] \in ClassNames /\ IsReg(log[i][2]) /\ ~Cls(log[i][2]).abstract
        /\ Conforms(<<"obj", log[i][2], log[i][3]>>, <<"class", log[i][2]>>)

\* C02 / C03 / C13 / C18: the pipeline computes the declarative reference
MatchesReference ==
    Terminal /\ ~DevAliasRevisit =>
        LET ref == RefDoc(doc0) IN
        /\ (res[1] = "VAL") = (ref[1] = "VAL")
        /\ res[1] = "VAL" => res[2] = ref[2]

\* C02: rejected documents are reported as RecognitionError (or a YAML error)
RejectsWithRecognitionError ==
    phase = "failed" /\ ~DevAliasRevisit => res[2] \subseteq {"RecErr"}

\* C13: the reference does not depend on the order of mapping keys
\* (values compared with mappings as sets of pairs)
\* with a repeated key the order of a mapping's pairs is part of its meaning
\* (the last one wins): such documents are outside the claim
NoDupKeys(d) ==
    \A n \in DOMAIN d.h : d.h[n].k = "m" =>
        \A i, j \in DOMAIN d.h[n].c :
            (i % 2 = 1 /\ j % 2 = 1 /\ i < j /\ d.h[d.h[n].c[i]].k = "s" /\ d.h[d.h[n].c[j]].k = "s")
                => d.h[d.h[n].c[i]].v # d.h[d.h[n].c[j]].v

KeyOrderIrrelevant ==
    Terminal /\ doc0.r # 0 /\ ~Cyclic(doc0.h, doc0.r, {}) /\ NoDupKeys(doc0) =>
        LET a == RefDoc(doc0)
            b == RefDoc(ReverseMaps(doc0)) IN
        /\ a[1] = b[1]
        /\ a[1] = "VAL" => Unordered(a[2]) = Unordered(b[2])

\* C08: nothing but RecognitionError / YAMLError leaves load
OnlyDocumentedErrors ==
    phase = "failed" => res[2] \subseteq {"RecErr", "YamlErr"}

\* C10: hooks run once, own class only, bases first, before the type check:
\* the savorize entries between two constructor calls are exactly the chains
\* of the classes nodes were recognised as (checked on the history variable
\* by the replay); at model level: every logged class defines the hook
HooksOfDefiningOnly ==
    \A i \in DOMAIN log : log[i][1] = "sav" =>
        log[i][2] \in ClassNames /\ Cls(log[i][2]).hassav /\ IsReg(log[i][2])
\* ... and no class's hook occurs twice in the chain of any class, ancestors
\* come before descendants
HookChainsWellFormed ==
    \A c \in ClassNames :
        LET ch == SavChain(c) IN
        /\ \A i, j \in DOMAIN ch : i # j => ch[i] # ch[j]
        /\ \A i, j \in DOMAIN ch : i < j => ~ IsSubclass(ch[i], ch[j]) \/ ch[i] = ch[j]
HooksOnlyOfDefiningClasses == HooksOfDefiningOnly /\ HookChainsWellFormed

\* C17 (weak claim): a RecognitionError for a parseable document cites at
\* least one node, and only nodes of the document
CitesSomething ==
    phase = "failed" /\ res[2] = {"RecErr"} => res[3] # {}
CitesInsideDocument ==
    phase = "failed" => \A n \in res[3] : n \in DOMAIN heap
=============================================================================
