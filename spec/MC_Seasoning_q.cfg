SPECIFICATION Spec
CONSTANTS
  Nodes <- NodesQ
  ValAttrs <- VA
INVARIANT SeqMapSeqInverse
INVARIANT IndexMapIndexInverse
INVARIANT NoOpWhenNotApplicable
INVARIANT ErrorOnlyForStrictDuplicates
CONSTRAINT Export
CHECK_DEADLOCK FALSE
