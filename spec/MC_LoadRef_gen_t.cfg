SPECIFICATION Spec
CONSTANTS
  MaxNodes = 0
  Tier = "t"
  ModelIds <- GenModels
  AllowAlias = FALSE
  AllowCycles = FALSE
  AllowEmpty = FALSE
INVARIANT TypeOK
INVARIANT StackDiscipline
CONSTRAINT Export
CHECK_DEADLOCK FALSE
