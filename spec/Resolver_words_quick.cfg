SPECIFICATION Spec
CONSTANTS
  MaxLen = 3
  UseAlphabet = TRUE
INVARIANT LoaderFollowsYaml12
CONSTRAINT Export
CHECK_DEADLOCK FALSE
