---------------------------- MODULE MC_LoadRef ----------------------------
(* Bounded configurations of the load pipeline + reference.  Every terminal *)
(* state is exported with the verdict of each property as evaluated by TLC. *)
EXTENDS LoadRef

Flags ==
    [TypeSafe |-> TypeSafe, CtorArgsConform |-> CtorArgsConform,
     MatchesReference |-> MatchesReference,
     RejectsWithRecognitionError |-> RejectsWithRecognitionError,
     KeyOrderIrrelevant |-> KeyOrderIrrelevant,
     OnlyDocumentedErrors |-> OnlyDocumentedErrors,
     HooksOnlyOfDefiningClasses |-> HooksOnlyOfDefiningClasses,
     CitesSomething |-> CitesSomething, CitesInsideDocument |-> CitesInsideDocument]

Devs == [alias |-> DevAliasRevisit]

Export ==
    Terminal => PrintT(<<"CASE", ToJson(
        [model |-> Mod.id, dt |-> dt, doc |-> doc0, res |-> res, log |-> log,
         nalias |-> nalias, inv |-> Flags, dev |-> Devs,
         ref |-> RefDoc(doc0)])>>)

GenModels == {Cat.models[i].id : i \in {j \in DOMAIN Cat.models : Cat.models[j].family = "gen"}}
\* family "fuzz": class models with hooks outside the effect vocabulary of this
\* specification, used by the text fuzzer only
FuzzModels == {Cat.models[i].id : i \in {j \in DOMAIN Cat.models : Cat.models[j].family \in {"fuzz", "req", "dumpinv"}}}
AllModels == {Cat.models[i].id : i \in DOMAIN Cat.models} \ (GenModels \cup FuzzModels)
AliasModels == {"collections", "plain", "enum_str", "parsed", "extra", "hooks", "mixany", "setval", "extracyc", "dashed_sav", "dashed", "tree", "gen4", "gen7", "gen8", "gen9", "floatint", "enumsav", "seqstr", "contany", "pathdate"}

\* cheap structural invariants checked in every state
TypeOK ==
    /\ phase \in {"compose", "process", "construct", "done", "failed"}
    /\ \A i \in DOMAIN heap : heap[i].k \in {"s", "q", "m"}
    /\ \A i \in DOMAIN heap : \A j \in DOMAIN heap[i].c : heap[i].c[j] \in DOMAIN heap
    /\ phase \in {"compose"} => stack = <<>>
StackDiscipline ==
    \A i \in DOMAIN stack : i < Len(stack) => stack[i].pc = "wait"
=============================================================================
