SPECIFICATION Spec
CONSTANTS
  ClassSets <- CS
  LoadArgs <- LA
  DumpArgs <- DA
  MaxOps = 6
  MaxFns = 3
INVARIANT Isolation
PROPERTY BaseClassesUntouched
PROPERTY FunctionsImmutable
CONSTRAINT Export
CHECK_DEADLOCK FALSE
