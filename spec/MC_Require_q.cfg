SPECIFICATION ReqSpec
CONSTANTS
  MaxNodes = 5
  Tier = "q"
  ModelIds <- ReqModelsQ
  AllowAlias = FALSE
  AllowCycles = FALSE
  AllowEmpty = FALSE
PROPERTY NodeNeverWritten
CONSTRAINT Export
CHECK_DEADLOCK FALSE
