SPECIFICATION ReqSpec
CONSTANTS
  MaxNodes = 4
  Tier = "q"
  ModelIds <- ReqModels
  AllowAlias = FALSE
  AllowCycles = FALSE
  AllowEmpty = FALSE
PROPERTY NodeNeverWritten
CONSTRAINT Export
CHECK_DEADLOCK FALSE
