SPECIFICATION Spec
CONSTANTS
  MaxNodes = 10
  Tier = "q"
  ModelIds <- AliasModels
  AllowAlias = TRUE
  AllowCycles = TRUE
  AllowEmpty = FALSE
INVARIANT TypeOK
INVARIANT StackDiscipline
CONSTRAINT Export
CHECK_DEADLOCK FALSE
