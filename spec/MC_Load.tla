------------------------------ MODULE MC_Load ------------------------------
EXTENDS YatimlLoad

Export ==
    Terminal => PrintT(<<"CASE", ToJson(
        [model |-> Mod.id, dt |-> dt, doc |-> doc0, res |-> res, log |-> log,
         shared |-> shared, nalias |-> nalias])>>)

M_scalars == {"scalars"}
M_plain == {"plain"}
=============================================================================
