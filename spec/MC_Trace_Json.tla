---- MODULE MC_Trace_Json ----
EXTENDS Trace_Json
TIndents == -1..100
TKinds == {"str", "null", "bool", "int", "float", "ts"}
TKeys == [i \in 1..200 |-> "k"]
====
