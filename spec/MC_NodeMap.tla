----------------------------- MODULE MC_NodeMap -----------------------------
EXTENDS NodeMap

\* "a_b" is absent from every initial map; one of them holds the dashed
\* spelling "a-b", which the accessors must treat as a different key
K3 == {"a", "b", "a_b"}
S(t, v) == <<"s", t, v>>
\* two keys with equal scalar values: in a composed document they may be ONE node
Twin == << <<"a", S("int", "1")>>, <<"b", S("int", "1")>> >>
Inits == { <<>>, Twin,
           << <<"a", S("int", "1")>>, <<"b", S("str", "x")>> >>,
           << <<"b", <<"q">>>>, <<"a", <<"m">>>> >>,
           << <<"a", S("null", "")>>, <<"b", S("bool", "true")>>, <<"c", S("float", "1.5")>> >>,
           << <<"a-b", S("int", "1")>>, <<"b", S("str", "x")>> >> }
Vals == {<<"str", "v">>, <<"int", "7">>, <<"bool", "false">>, <<"null", "">>, <<"float", "2.5">>}
AllTypes == {"str", "int", "float", "bool", "null", "list", "dict"}
QTypes == {"str", "null", "list"}
InitsQ == { Twin, << <<"a", S("int", "1")>>, <<"b", S("str", "x")>> >>,
            << <<"b", <<"q">>>>, <<"a", <<"m">>>> >>,
            << <<"a-b", S("int", "1")>>, <<"b", S("str", "x")>> >> }
ValsQ == {<<"str", "v">>, <<"int", "7">>, <<"null", "">>}
=============================================================================
