--------------------------- MODULE MC_RoundTrip ---------------------------
EXTENDS RoundTrip

RTFlags ==
    [TagFree |-> TagFree, RoundTripHolds |-> RoundTripHolds,
     DumpNeverFails |-> DumpNeverFails, ProjectionFaithful |-> ProjectionFaithful]
RTDevs == [sharedscalar |-> DevSharedScalarObject,
           alias |-> shared]

RTExport ==
    RTTerminal => PrintT(<<"CASE", ToJson(
        [model |-> Mod.id, dt |-> dt, oh |-> oh, oroot |-> oroot,
         value |-> ValOf(oroot, 2 * Len(oh) + 2),
         dumped |-> dumped, dlog |-> dlog, dex |-> dex,
         doc |-> doc0, res |-> res, log |-> log, nreuse |-> nreuse,
         inv |-> RTFlags, dev |-> RTDevs])>>)

\* treeswe (objects nested in objects of their own class below a sweeten hook)
\* is not explored yet: Represent meets a placeholder child while the object
\* graph is still being generated (TLC: index 0 of the node heap)
DumpModels == {Cat.models[i].id : i \in {j \in DOMAIN Cat.models : Cat.models[j].dump}} \ {"treeswe"}
QuickDump == {"strings", "strcoll", "scalarvals", "defaults", "inverse", "plain",
              "extra", "enum_str", "hier", "hooks", "parsed", "dashed_sav", "mixin", "multi",
              "optreq", "nested", "lists", "nullswe", "samename", "private", "longstr", "ydef", "strenum", "ystr", "lastenum", "underscore", "indexrt", "defextra", "extramid", "pathdate", "deepcont", "diamond", "lackparam"} \cup
             {Cat.models[i].id : i \in {j \in DOMAIN Cat.models : Cat.models[j].family = "gen"}}
=============================================================================
