SPECIFICATION TraceSpec
CONSTANTS
  MaxNodes = 0
  Tier = "q"
  ModelIds <- NoModels
  AllowAlias = FALSE
  AllowCycles = FALSE
  AllowEmpty = FALSE
  MaxObjs = 0
  MaxLen = 2
INVARIANT TraceTagFree
CONSTRAINT Progress
CONSTRAINT Export
POSTCONDITION TraceAccepted
CHECK_DEADLOCK FALSE
