SPECIFICATION Spec
CONSTANTS
  IndentChoices <- QuickIndents
  MaxDepth = 3
  MaxWidth = 2
  MaxEvents = 5
  ScalarKinds <- Kinds
  KeyAtoms <- Keys
INVARIANT TypeOK
INVARIANT StackMirrorsNesting
INVARIANT IndentNonNegative
INVARIANT IndentTracksDepth
INVARIANT OutputIsTheTree
INVARIANT CompactWhenNoIndent
INVARIANT LineBreaksCarryIndent
INVARIANT PrefixWellNested
CONSTRAINT Export
CHECK_DEADLOCK FALSE
