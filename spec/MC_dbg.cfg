SPECIFICATION Spec
CONSTANTS
  MaxNodes = 5
  Tier = "q"
  ModelIds <- DbgModels
  AllowAlias = FALSE
  AllowCycles = FALSE
  AllowEmpty = TRUE
CONSTRAINT Export
CHECK_DEADLOCK FALSE
