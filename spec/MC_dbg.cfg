SPECIFICATION Spec
CONSTANTS
  MaxNodes = 8
  Tier = "q"
  ModelIds <- DbgModels
  AllowAlias = TRUE
  AllowCycles = TRUE
  AllowEmpty = TRUE
CONSTRAINT Export
CHECK_DEADLOCK FALSE
