"""Canary: nothing in yatiml may ever import or call this (C04)."""
IMPORTED = True


def boom(*a, **k):
    raise SystemExit('verif_canary.boom was called')


class Boom:
    pass
