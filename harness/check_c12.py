"""C12 - every source and sink kind gives the same result.

spec/SourceSink.tla: the dispatch of LoadFunction / Dump*Function on the kind
of source / sink with the file system and file handles as state; TLC checks
NoHandleLeak, SourcesAgree, SinksAgree, FileHoldsTheText on all operation
sequences up to the bound and exports them.  The replay instantiates the
abstract document / value / option ids with behaviours exported by the load
pipeline, round-trip and JSON-emitter specifications (incl. failing ones) and
executes every history with real strings, Paths, text and binary streams,
file names and open files, watching every file handle yatiml opens."""
import io
import common
import json
import locale
import os
import pathlib
import random
import shutil
import tempfile

import yaml

import dumpcheck
import loadcheck
import loadreplay
import modelgen
import render
from common import (BUILD, NCPU, SEED, MachineryError, Verdict, chunked,
                    run_tlc, use_repo)

_opened = []
_orig_open = pathlib.Path.open


def _tracking_open(self, *a, **k):
    f = _orig_open(self, *a, **k)
    _opened.append(f)
    return f


def encodable(v):
    """lone surrogates cannot be written to a file in any encoding: replace
    them (outside the property's domain for file sinks)"""
    if isinstance(v, str):
        return v.replace('\ud800', 'SUR')
    if isinstance(v, list):
        return [encodable(x) for x in v]
    if isinstance(v, dict):
        return {encodable(k): encodable(x) for k, x in v.items()}
    return v


class Unrepresentable:
    """dumping this raises inside yaml.dump (no representer)"""


def outcome_of_load(fn, source, b, y):
    try:
        v = fn(source)
        return ['VAL', b.abstract(v)]
    except Exception as e:  # noqa
        import re
        return ['ERR', modelgen.exc_class(y, e),
                re.findall(r'line (\d+), column (\d+)', str(e))]


def run_history(item):
    """item: (history, load cases [2], dump cases [2], json cases [2])"""
    hist, lcases, dcases, jcases = item
    ctx = loadreplay.ctx()
    y = ctx['yatiml']
    enc = locale.getpreferredencoding(False)
    tmp = tempfile.mkdtemp(prefix='c12-', dir=BUILD)
    errs = []
    n = 0
    try:
        paths = {'p1': os.path.join(tmp, 'p1.yaml'),
                 'p2': os.path.join(tmp, 'p2.yaml')}
        docs = {}
        for did, c in zip(('d1', 'd2'), lcases):
            text, _ = render.render(c['doc'], ctx['implicit'],
                                    'block' if did == 'd2' else 'flow')
            docs[did] = (c, text)
        # dump side: alternate between YAML values (RoundTrip cases) and JSON
        use_json = (hash(json.dumps(hist, sort_keys=True)) + SEED) % 2 == 1
        vals = {}
        if use_json:
            import check_c07
            for vid, c in zip(('v1', 'v2'), jcases):
                vv = check_c07.concretise(c['evs'], 5)
                obj, _ = check_c07.build(c['evs'], vv)
                vals[vid] = ('json', None, encodable(obj), c)
            opts = {'o1': {}, 'o2': {'indent': jcases[0]['req'] if
                                     jcases[0]['req'] >= 0 else 4,
                                     'ensure_ascii': False}}
        else:
            for vid, c in zip(('v1', 'v2'), dcases):
                b = loadreplay.built(c['model'])
                obj, _ = dumpcheck.build_objects(b, c['oh'], c['oroot'])
                vals[vid] = ('yaml', c['model'], obj, c)
            opts = {'o1': {}, 'o2': {}}
        vals['vbad'] = ('yaml' if not use_json else 'json', None,
                        Unrepresentable(), None)

        def dump_fns(vid):
            kind, mid, obj, c = vals[vid]
            regs = loadreplay.built(mid).registered if mid else []
            if kind == 'json':
                return (y.dumps_json_function(*regs),
                        y.dump_json_function(*regs))
            return y.dumps_function(*regs), y.dump_function(*regs)

        for h in hist:
            n += 1
            del _opened[:]
            if h['op'] == 'load':
                c, text = docs[h['arg']]
                b = loadreplay.built(c['model'])
                fn = loadreplay.load_fn(c['model'], c['dt'])
                ref = outcome_of_load(fn, text, b, y)
                if h['kind'] == 'str':
                    got = ref
                elif h['kind'] == 'path':
                    p = pathlib.Path(paths[h['path']])
                    p.write_text(text, encoding=enc)
                    got = outcome_of_load(fn, p, b, y)
                    if not _opened:
                        errs.append('load from a Path did not go through '
                                    'Path.open')
                    for f in _opened:
                        if not f.closed:
                            errs.append('load(Path) left the file open (%s)'
                                        % got[0])
                            f.close()
                elif h['kind'] == 'text':
                    p = pathlib.Path(paths['p2'] + '.t')
                    p.write_text(text, encoding=enc)
                    with open(str(p), 'r', encoding=enc) as f:
                        got = outcome_of_load(fn, f, b, y)
                        if f.closed:
                            errs.append('load closed the caller\'s stream')
                    s = io.StringIO(text)
                    got2 = outcome_of_load(fn, s, b, y)
                    if got2 != got:
                        errs.append('open text file and StringIO disagree: '
                                    '%s vs %s' % (got, got2))
                else:
                    for codec in ('utf-8', 'utf-16'):
                        s = io.BytesIO(text.encode(codec))
                        got = outcome_of_load(fn, s, b, y)
                        if s.closed:
                            errs.append('load closed the caller\'s stream')
                        if got != ref:
                            break
                if got != ref:
                    errs.append('load of %r as %s from %s: %s; from str: %s'
                                % (text, json.dumps(c['dt']), h['kind'],
                                   json.dumps(got)[:200],
                                   json.dumps(ref)[:200]))
            else:
                vid, oid = h['arg']
                kind, mid, obj, c = vals[vid]
                dumps, dump = dump_fns(vid)
                kw = opts[oid] if kind == 'json' else {}
                try:
                    ref = ['VAL', dumps(obj, **kw)]
                except Exception as e:  # noqa
                    ref = ['ERR', type(e).__name__]
                if h['op'] == 'dumps':
                    continue
                try:
                    if h['kind'] in ('strpath', 'path'):
                        sink = paths[h['path']]
                        sink = sink if h['kind'] == 'strpath' else \
                            pathlib.Path(sink)
                        dump(obj, sink, **kw)
                        with open(paths[h['path']], 'rb') as f:
                            raw = f.read()
                        got = ['VAL', raw.decode(enc)]
                    else:
                        s = io.StringIO()
                        dump(obj, s, **kw)
                        if s.closed:
                            errs.append('dump closed the caller\'s stream')
                        got = ['VAL', s.getvalue()]
                        p = paths['p2'] + '.w'
                        with open(p, 'w', encoding=enc, newline='') as f:
                            dump(obj, f, **kw)
                            if f.closed:
                                errs.append('dump closed the caller\'s file')
                        with open(p, 'rb') as f:
                            got2 = ['VAL', f.read().decode(enc)]
                        if got2 != got:
                            errs.append('StringIO and open file sinks '
                                        'received different text')
                        # a stream that already holds text (position != 0)
                        s3 = io.StringIO()
                        s3.write('# header\n')
                        dump(obj, s3, **kw)
                        if s3.getvalue() != '# header\n' + got[1]:
                            errs.append('a stream that already held text '
                                        'received %r, a fresh one %r' % (
                                            s3.getvalue()[9:][:80], got[1][:80]))
                except Exception as e:  # noqa
                    got = ['ERR', type(e).__name__]
                for f in _opened:
                    if not f.closed:
                        errs.append('dump to %s left the file open (%s)' % (
                            h['kind'], got[0]))
                        f.close()
                if h['kind'] in ('strpath', 'path') and not _opened:
                    errs.append('dump to a path did not go through Path.open')
                if got != ref:
                    errs.append('dump of %s (%s, options %s) to %s wrote %s; '
                                'the dumps variant returns %s' % (
                                    vid, kind, kw, h['kind'],
                                    json.dumps(got)[:200],
                                    json.dumps(ref)[:200]))
    finally:
        shutil.rmtree(tmp, ignore_errors=True)
    return errs, n


def _chunk(items):
    pathlib.Path.open = _tracking_open
    try:
        return [run_history(i) for i in items]
    finally:
        pathlib.Path.open = _orig_open


def _raw_chunk(texts):
    """The same raw text through every source kind (document type Any and
    Dict[str, Any]): equal results or the same error."""
    import typing
    y = use_repo()
    enc = locale.getpreferredencoding(False)
    fns = [y.load_function(), y.load_function(typing.Dict[str, typing.Any])]
    tmp = tempfile.mkdtemp(prefix='c12r-', dir=BUILD)
    bad = []
    n = 0

    def out(fn, src):
        try:
            return ['VAL', repr(fn(src))]
        except Exception as e:  # noqa
            import re
            return ['ERR', type(e).__name__,
                    re.findall(r'line (\d+), column (\d+)', str(e))]
    try:
        for t in texts:
            try:
                data = t.encode(enc)
                t.encode('utf-16')
            except UnicodeError:
                continue
            if '\r' in t or '\x85' in t or '\u2028' in t or '\u2029' in t \
                    or '\ufeff' in t or '\x00' in t:
                continue        # universal-newline / BOM handling differs by design
            for fn in fns:
                n += 1
                ref = out(fn, t)
                p = pathlib.Path(os.path.join(tmp, 'r.yaml'))
                with open(str(p), 'wb') as f:
                    f.write(data)
                got = {'path': out(fn, p)}
                with open(str(p), 'r', encoding=enc, newline='') as f:
                    got['text file'] = out(fn, f)
                got['StringIO'] = out(fn, io.StringIO(t))
                got['BytesIO'] = out(fn, io.BytesIO(data))
                for k, g in got.items():
                    if g != ref:
                        bad.append('load of %r from %s gives %s; from str: %s'
                                   % (t, k, g, ref))
                        break
    finally:
        shutil.rmtree(tmp, ignore_errors=True)
    return bad, n


def raw_text_differential(V, tier, rnd):
    import multiprocessing
    texts = loadcheck.fuzz_texts(rnd, 1500 if tier == 'quick' else 40000, [])
    texts += ['a: |\n  x\n    \n  y\n', '\ta: 1\n\tb: 2\n', '  a: 1\n  b: 2\n',
              'a: >\n  x\n\n   y\n', '- |2\n    x\n   \n', 'a: "x\n  \n  y"\n',
              "k: 'a\n\n   b'\n", '\n\n  \nx: 1\n']
    chunks = chunked(texts, NCPU * 2)
    parts = common.fork_map(_raw_chunk, chunks)
    total = 0
    for bad, n in parts:
        total += n
        for b in bad:
            V.violation([[], [], [], [], b], b)
    V.evaluations += total
    V.notes['raw_text_loads_per_kind'] = total


def run(tier, replay=None):
    import multiprocessing
    V = Verdict('C12', tier)
    V.assumptions = [
        'Load / Dumps are uninterpreted in SourceSink.tla (their meaning is '
        'the load / round-trip / JSON-emitter specifications); this check '
        'decides only that all kinds call the same one and that handles are '
        'managed',
        'files are written and read in the locale encoding (%s here)'
        % locale.getpreferredencoding(False),
    ]
    use_repo()
    if replay:
        rec = json.load(open(replay))
        loadcheck.write_models(dumpcheck.live_dimplicit())
        pathlib.Path.open = _tracking_open
        errs, _ = run_history(rec['case'])
        for e in errs:
            print(e)
        return 1 if errs else 0
    cfg = 'MC_SourceSink_q.cfg' if tier == 'quick' else 'MC_SourceSink_t.cfg'
    r = run_tlc('MC_SourceSink', cfg, timeout=3600)
    V.add_tlc(r, 'SourceSink operation sequences ' + cfg)
    hists = [c['hist'] for c in r.cases]
    rnd = random.Random(SEED)
    rnd.shuffle(hists)
    hists = hists[:3000 if tier == 'quick' else 40000]
    # concrete cases from the other specifications' explorations
    _, lcases = loadcheck.tlc_cases('MC_LoadRef_main.cfg')
    lcases = [c for c in lcases if c['doc']['r'] != 0]
    # aliased and self-referential documents as well (error paths that depend
    # on marks / node identity must not depend on the kind of source)
    _, acases = loadcheck.tlc_cases('MC_LoadRef_alias.cfg')
    acases = [c for c in acases if c['nalias'] > 0]
    rnd.shuffle(acases)
    lcases = lcases + acases[:max(2000, len(lcases) // 3)]
    dstats, dcases = loadcheck.tlc_cases(
        'MC_RoundTrip_q.cfg', module='MC_RoundTrip',
        extra_files=('RoundTrip.tla',), dimplicit=dumpcheck.live_dimplicit())
    dcases = [c for c in dcases if c['dex'] == '' and isinstance(c['oh'], list)]
    rj = run_tlc('MC_JsonEmitter', 'MC_JsonEmitter_quick.cfg', timeout=600,
                 name='je-c12')
    jcases = rj.cases
    if not (lcases and dcases and jcases):
        raise MachineryError('missing concrete cases')
    V.tlc_runs.append({'what': 'concrete cases reused', 'load': len(lcases),
                       'roundtrip': len(dcases), 'json': len(jcases)})
    # documents that are refused late (by a constructor: unknown enum member,
    # string-like or __init__ that raises) have error paths of their own; one
    # history in three takes its flow-style document from this pool
    late = [c for c in lcases if c['res'][0] == 'ERR' and c['model'] in (
        'enum_str', 'lastenum', 'enumsav', 'strenum', 'raising', 'raising2',
        'tree', 'pathdate')]
    V.notes['late_refusal_pool'] = len(late)
    items = []
    for i, h in enumerate(hists):
        ls = rnd.sample(lcases, 2)
        if late and i % 3 == 0:
            ls[0] = rnd.choice(late)
        items.append((h, ls, rnd.sample(dcases, 2),
                      rnd.sample(jcases, 2)))
    chunks = chunked(items, NCPU * 2)
    parts = common.fork_map(_chunk, chunks)
    k = 0
    for cs, part in zip(chunks, parts):
        for it, (errs, n) in zip(cs, part):
            V.replayed += 1
            V.evaluations += n
            V.nontrivial.add(json.dumps([it[0], [c['doc'] for c in it[1]]],
                                        sort_keys=True)[:2000])
            for e in errs:
                V.violation(list(it), e)
            if k < 3:
                V.sample({'history': [[h['op'], h['kind'], h['arg'],
                                       h['path']] for h in it[0]]})
                k += 1
    raw_text_differential(V, tier, rnd)
    V.exhaustive = False
    return V.finish(
        'operation sequences of SourceSink up to the bound (a seeded sample of '
        'them), each instantiated with two random behaviours of the load '
        'pipeline exploration (incl. failing documents), of the round-trip '
        'exploration and of the JSON emitter exploration; all source kinds '
        '{str, Path, text file, StringIO, BytesIO utf-8/utf-16} and sink kinds '
        '{file name, Path, StringIO, open file}')
