"""Debug driver: compare the operational spec with the code on a config."""
import json, sys, os, collections
sys.path.insert(0, os.path.dirname(os.path.abspath(__file__)))
from common import *
import catalogue, loadreplay

def chunk(cases):
    out = []
    for c in cases:
        try:
            o = loadreplay.observe(c)
        except MachineryError as e:
            out.append((c, None, 'MACH ' + str(e)[:200])); continue
        res = c['res']
        errs = []
        if res[0] == 'VAL':
            if o['outcome'] != 'VAL':
                errs.append('spec VAL, code %s: %s' % (o['errclass'], o['message'][:200].replace('\n',' | ')))
            else:
                ev = loadreplay.expected_value(c)
                if ev != o['value']:
                    errs.append('value: spec %s code %s' % (ev, o['value']))
                sl = [loadreplay.fill_defaults(c, e) if e[0]=='init' else e for e in loadreplay.spec_log(c)]
                ol = loadreplay.obs_log(o, None)
                if sl != ol:
                    errs.append('log: spec %s code %s' % (sl, ol))
        else:
            if o['outcome'] != 'ERR':
                errs.append('spec ERR %s, code VAL %s' % (res[1], o['value']))
            elif o['errclass'] not in res[1]:
                errs.append('errclass: spec %s code %s: %s' % (res[1], o['errclass'], o['message'][:150].replace('\n',' | ')))
        out.append((c, o, errs))
    return out

if __name__ == '__main__':
    models = sys.argv[1]; n = int(sys.argv[2]); alias = len(sys.argv) > 3
    os.makedirs(BUILD, exist_ok=True)
    json.dump(catalogue.build(), open(os.path.join(BUILD, 'models.json'), 'w'))
    open(os.path.join(SPEC, 'MC_dbg.cfg'), 'w').write('''SPECIFICATION Spec
CONSTANTS
  MaxNodes = %d
  Tier = "q"
  ModelIds <- DbgModels
  AllowAlias = %s
  AllowCycles = %s
  AllowEmpty = TRUE
CONSTRAINT Export
CHECK_DEADLOCK FALSE
''' % (n, 'TRUE' if alias else 'FALSE', 'TRUE' if alias else 'FALSE'))
    open(os.path.join(SPEC, 'MC_dbg.tla'), 'w').write('''---- MODULE MC_dbg ----
EXTENDS MC_LoadRef
DbgModels == {%s}
====
''' % ', '.join('"%s"' % m for m in models.split(',')))
    r = run_tlc('MC_dbg', 'MC_dbg.cfg', env={'YATIML_MODELS': os.path.join(BUILD, 'models.json')})
    if r.error: print(r.error); sys.exit(2)
    print('states', r.distinct, 'cases', len(r.cases), 'wall', round(r.wall,1))
    res = pool_map(chunk, r.cases)
    bad = [(c, o, e) for c, o, e in res if e]
    print('mismatches', len(bad))
    seen = collections.Counter()
    for c, o, e in bad:
        key = (c['model'], json.dumps(c['dt']), str(e)[:60])
        seen[key] += 1
        if seen[key] <= 1:
            print('---', c['model'], json.dumps(c['dt']), c.get('inv'))
            print('   text:', (o or {}).get('text', '?').replace('\n', ' ⏎ '))
            print('   ', e)
