"""C06 - decided with spec/RoundTrip.tla; see dumpcheck.py."""
import dumpcheck


def run(tier, replay=None):
    return dumpcheck.run('C06', tier, replay)
