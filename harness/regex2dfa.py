"""Binding (C): translate the *live* PyYAML/yatiml implicit-resolver tables
into symbolic DFAs that TLC can explore.

Resolver.resolve semantics (yaml/resolver.py): the bucket is chosen by the
first character ('' for the empty string), entries are tried in order plus the
wildcard bucket (key None), `regexp.match(value)` is a *prefix* match; the
first match wins; otherwise the default scalar tag (str).

Each pattern is parsed with re._parser, turned into an NFA with
  - begin anchors usable only before the first character,
  - `$` usable at the end of the string or before one final newline,
  - a sticky accept (a matched prefix stays matched whatever follows),
then determinised over the coarsest partition of the code points that all
patterns, all bucket keys and the reference alphabets distinguish.
"""
import re
import re._constants as C
import re._parser as P

MAXCP = 0x10FFFF


class Unsupported(Exception):
    pass


# ---- character sets as sorted lists of inclusive intervals -----------------
def norm(iv):
    iv = sorted(iv)
    out = []
    for lo, hi in iv:
        if out and lo <= out[-1][1] + 1:
            out[-1] = (out[-1][0], max(out[-1][1], hi))
        else:
            out.append((lo, hi))
    return tuple(out)


def complement(iv):
    out = []
    cur = 0
    for lo, hi in norm(iv):
        if lo > cur:
            out.append((cur, lo - 1))
        cur = hi + 1
    if cur <= MAXCP:
        out.append((cur, MAXCP))
    return tuple(out)


def charset_of(op, av):
    if op is C.LITERAL:
        return ((av, av),)
    if op is C.NOT_LITERAL:
        return complement(((av, av),))
    if op is C.ANY:
        return complement(((10, 10),))
    if op is C.IN:
        neg = False
        iv = []
        for o, a in av:
            if o is C.NEGATE:
                neg = True
            elif o is C.LITERAL:
                iv.append((a, a))
            elif o is C.RANGE:
                iv.append((a[0], a[1]))
            elif o is C.CATEGORY:
                iv.extend(category_set(a))
            else:
                raise Unsupported('char class item %s' % o)
        return complement(iv) if neg else norm(iv)
    raise Unsupported('op %s' % op)


_CATEGORY_PROBE = {'CATEGORY_DIGIT': r'\d', 'CATEGORY_NOT_DIGIT': r'\D',
                   'CATEGORY_SPACE': r'\s', 'CATEGORY_NOT_SPACE': r'\S',
                   'CATEGORY_WORD': r'\w', 'CATEGORY_NOT_WORD': r'\W'}
_category_cache = {}


def category_set(cat):
    """\\d, \\s, \\w ... of a str pattern: the code points `re` itself
    accepts (Unicode categories), as intervals."""
    name = str(cat).split('.')[-1]
    if name not in _CATEGORY_PROBE:
        raise Unsupported('category %s' % cat)
    if name not in _category_cache:
        import re as _re
        rx = _re.compile(_CATEGORY_PROBE[name])
        iv = []
        start = None
        for cp in range(MAXCP + 1):
            if rx.match(chr(cp)):
                if start is None:
                    start = cp
            elif start is not None:
                iv.append((start, cp - 1))
                start = None
        if start is not None:
            iv.append((start, MAXCP))
        _category_cache[name] = tuple(iv)
    return _category_cache[name]


# ---- NFA ---------------------------------------------------------------------
class NFA:
    def __init__(self):
        self.eps = {}       # state -> [state]
        self.bol = {}       # state -> [state]   (only before first char)
        self.eol = {}       # state -> [state]   ($ assertion)
        self.chr = {}       # state -> [(charset, state)]
        self.n = 0

    def new(self):
        self.n += 1
        return self.n - 1

    def add(self, table, a, b):
        table.setdefault(a, []).append(b)


def build(nfa, seq, start):
    """Append the NFA fragment for `seq` after state `start`; returns end."""
    cur = start
    for op, av in seq:
        if op in (C.LITERAL, C.NOT_LITERAL, C.ANY, C.IN):
            nxt = nfa.new()
            nfa.chr.setdefault(cur, []).append((charset_of(op, av), nxt))
            cur = nxt
        elif op is C.SUBPATTERN:
            cur = build(nfa, av[3], cur)
        elif op is C.BRANCH:
            end = nfa.new()
            for alt in av[1]:
                s = nfa.new()
                nfa.add(nfa.eps, cur, s)
                e = build(nfa, alt, s)
                nfa.add(nfa.eps, e, end)
            cur = end
        elif op in (C.MAX_REPEAT, C.MIN_REPEAT):
            lo, hi, sub = av
            for _ in range(lo):
                cur = build(nfa, sub, cur)
            if hi is C.MAXREPEAT:
                s = nfa.new()
                nfa.add(nfa.eps, cur, s)
                e = build(nfa, sub, s)
                nfa.add(nfa.eps, e, s)
                cur = s
            else:
                if hi - lo > 64:
                    raise Unsupported('large bounded repeat')
                end = nfa.new()
                nfa.add(nfa.eps, cur, end)
                for _ in range(hi - lo):
                    cur = build(nfa, sub, cur)
                    nfa.add(nfa.eps, cur, end)
                cur = end
        elif op is C.AT:
            nxt = nfa.new()
            if av in (C.AT_BEGINNING, C.AT_BEGINNING_STRING):
                nfa.add(nfa.bol, cur, nxt)
            elif av is C.AT_END:
                nfa.add(nfa.eol, cur, nxt)
            else:
                raise Unsupported('anchor %s' % av)
            cur = nxt
        else:
            raise Unsupported('regex construct %s' % op)
    return cur


def parse(pattern):
    flags = pattern.flags
    if flags & (re.IGNORECASE | re.MULTILINE | re.DOTALL | re.LOCALE):
        raise Unsupported('flags %s' % flags)
    if isinstance(pattern.pattern, bytes):
        raise Unsupported('bytes pattern')
    return P.parse(pattern.pattern, flags & re.VERBOSE)


def collect_sets(seq, acc):
    for op, av in seq:
        if op in (C.LITERAL, C.NOT_LITERAL, C.ANY, C.IN):
            acc.add(charset_of(op, av))
        elif op is C.SUBPATTERN:
            collect_sets(av[3], acc)
        elif op is C.BRANCH:
            for alt in av[1]:
                collect_sets(alt, acc)
        elif op in (C.MAX_REPEAT, C.MIN_REPEAT):
            collect_sets(av[2], acc)
        elif op is C.AT:
            pass
        else:
            raise Unsupported('regex construct %s' % op)


def partition(sets):
    """Coarsest partition of 0..MAXCP respecting all sets.
    Returns list of classes, each a tuple of intervals."""
    sets = sorted(set(sets))
    bounds = {0, MAXCP + 1}
    for s in sets:
        for lo, hi in s:
            bounds.add(lo)
            bounds.add(hi + 1)
    bounds = sorted(bounds)

    def member(s, x):
        for lo, hi in s:
            if lo <= x <= hi:
                return True
        return False
    groups = {}
    for lo, nxt in zip(bounds, bounds[1:]):
        sig = tuple(member(s, lo) for s in sets)
        groups.setdefault(sig, []).append((lo, nxt - 1))
    classes = sorted(groups.values(), key=lambda iv: iv[0][0])
    return [tuple(c) for c in classes]


def class_index(classes):
    table = []
    for i, c in enumerate(classes):
        for lo, hi in c:
            table.append((lo, hi, i))
    table.sort()

    def find(cp):
        lo_, hi_ = 0, len(table) - 1
        while lo_ <= hi_:
            mid = (lo_ + hi_) // 2
            lo, hi, i = table[mid]
            if cp < lo:
                hi_ = mid - 1
            elif cp > hi:
                lo_ = mid + 1
            else:
                return i
        raise KeyError(cp)
    return find


def set_classes(charset, classes):
    out = set()
    for i, c in enumerate(classes):
        lo = c[0][0]
        for a, b in charset:
            if a <= lo <= b:
                out.add(i)
                break
    return frozenset(out)


# ---- determinisation -------------------------------------------------------
NORMAL, ATEND, ATENDNL = 0, 1, 2
ACC = ('ACC',)


def determinise(nfa, start, final, classes, nl_class):
    """DFA over class ids.  States are frozensets of (q, mode) or ACC."""
    chr_edges = {q: [(set_classes(cs, classes), t) for cs, t in lst]
                 for q, lst in nfa.chr.items()}

    def closure(items, at_start):
        seen = set(items)
        stack = list(items)
        while stack:
            q, mode = stack.pop()
            nxt = [(t, mode) for t in nfa.eps.get(q, ())]
            if at_start:
                nxt += [(t, mode) for t in nfa.bol.get(q, ())]
            if mode == NORMAL:
                nxt += [(t, ATEND) for t in nfa.eol.get(q, ())]
            else:
                nxt += [(t, mode) for t in nfa.eol.get(q, ())]
            for it in nxt:
                if it not in seen:
                    seen.add(it)
                    stack.append(it)
        return frozenset(seen)

    def accepting(S):
        return S is ACC or any(q == final for q, _ in S)

    def canon(S):
        # a prefix matched without needing the end: sticky
        if S is not ACC and any(q == final and m == NORMAL for q, m in S):
            return ACC
        return S

    s0 = canon(closure({(start, NORMAL)}, True))
    states = {s0: 0}
    order = [s0]
    delta = []
    i = 0
    while i < len(order):
        S = order[i]
        row = []
        for c in range(len(classes)):
            if S is ACC:
                T = ACC
            else:
                moved = set()
                for q, mode in S:
                    if mode == NORMAL:
                        for cls, t in chr_edges.get(q, ()):
                            if c in cls:
                                moved.add((t, NORMAL))
                    elif mode == ATEND and c == nl_class:
                        # `$` matched before the final newline
                        moved.add((q, ATENDNL))
                T = canon(closure(moved, False))
            if T not in states:
                states[T] = len(order)
                order.append(T)
            row.append(states[T])
        delta.append(row)
        i += 1
    acc = [accepting(S) for S in order]
    return {'init': 0, 'delta': delta, 'acc': acc}


def minimise(dfa):
    """Moore minimisation (keeps TLC's product small and canonical)."""
    n = len(dfa['acc'])
    part = [1 if a else 0 for a in dfa['acc']]
    while True:
        sigs = {}
        new = []
        for q in range(n):
            sig = (part[q],) + tuple(part[t] for t in dfa['delta'][q])
            new.append(sigs.setdefault(sig, len(sigs)))
        if len(sigs) == len(set(part)):
            part = new
            break
        part = new
    k = len(set(part))
    # renumber so that init is 0 and order is by first occurrence from init
    remap = {}
    order = []
    stack = [dfa['init']]
    while stack:
        q = stack.pop(0)
        b = part[q]
        if b in remap:
            continue
        remap[b] = len(order)
        order.append(q)
        stack.extend(dfa['delta'][q])
    delta = [[remap[part[t]] for t in dfa['delta'][q]] for q in order]
    acc = [dfa['acc'][q] for q in order]
    assert len(order) <= k
    return {'init': 0, 'delta': delta, 'acc': acc}


def run_dfa(dfa, find, s):
    q = dfa['init']
    for ch in s:
        q = dfa['delta'][q][find(ord(ch))]
    return dfa['acc'][q]


# ---- tables ------------------------------------------------------------------
def pick_reps(cls):
    """Representative characters of a class: prefer printable ASCII."""
    cands = []
    for lo, hi in cls:
        for cp in (lo, hi, (lo + hi) // 2):
            if cp not in cands and not (0xD800 <= cp <= 0xDFFF):
                cands.append(cp)
    pref = [cp for cp in cands if 33 <= cp < 127 and chr(cp) not in '"\\']
    rest = [cp for cp in cands if cp not in pref]
    out = pref + rest
    return [chr(cp) for cp in out[:4]]


def extract(tables, extra_sets=()):
    """tables: {name: yaml_implicit_resolvers dict}.  Returns the JSON-able
    structure consumed by spec/Resolver.tla plus helpers for the harness."""
    patterns = {}       # id(pattern) -> (pattern, parsed)
    unsupported = {}
    sets = set(extra_sets)
    for name, tbl in tables.items():
        for key, lst in tbl.items():
            if key not in (None, ''):
                if len(key) != 1:
                    raise Unsupported('bucket key %r' % (key,))
                sets.add(((ord(key), ord(key)),))
            for tag, rx in lst:
                if id(rx) in patterns or id(rx) in unsupported:
                    continue
                try:
                    parsed = parse(rx)
                    collect_sets(parsed, sets)
                    patterns[id(rx)] = (rx, parsed)
                except Unsupported as e:
                    unsupported[id(rx)] = (rx, str(e))
    sets.add(((10, 10),))
    classes = partition(sets)
    find = class_index(classes)
    nl_class = find(10)
    dfas = []
    index = {}
    for pid, (rx, parsed) in patterns.items():
        nfa = NFA()
        s = nfa.new()
        e = build(nfa, parsed, s)
        d = minimise(determinise(nfa, s, e, classes, nl_class))
        index[pid] = len(dfas)
        dfas.append(d)
    out_tables = {}
    for name, tbl in tables.items():
        buckets = [[] for _ in classes]
        for key, lst in tbl.items():
            if key in (None, ''):
                continue
            entries = [(tag, index[id(rx)]) for tag, rx in lst
                       if id(rx) in index]
            buckets[find(ord(key))] = entries
        wild = [(tag, index[id(rx)]) for tag, rx in tbl.get(None, [])
                if id(rx) in index]
        empty = [(tag, index[id(rx)]) for tag, rx in tbl.get('', [])
                 if id(rx) in index]
        out_tables[name] = {'buckets': buckets, 'wild': wild, 'empty': empty}
    return {
        'classes': classes,
        'reps': [pick_reps(c) for c in classes],
        'dfas': dfas,
        'tables': out_tables,
        'patterns': [patterns[pid][0] for pid in patterns],
        'unsupported': [(rx.pattern, why) for rx, why in
                        unsupported.values()],
        'find': find,
    }


def short_tag(tag):
    pre = 'tag:yaml.org,2002:'
    return tag[len(pre):] if tag.startswith(pre) else tag


def to_tla_json(x):
    """1-based JSON structure for TLC (JsonDeserialize)."""
    def tbl(t):
        def ent(lst):
            return [[short_tag(tag), i + 1] for tag, i in lst]
        return {'buckets': [ent(b) for b in t['buckets']],
                'wild': ent(t['wild']), 'empty': ent(t['empty'])}
    return {
        'nclasses': len(x['classes']),
        'reps': [r[0] for r in x['reps']],
        'dfas': [{'init': d['init'] + 1,
                  'delta': [[t + 1 for t in row] for row in d['delta']],
                  'acc': d['acc']} for d in x['dfas']],
        'tables': {k: tbl(v) for k, v in x['tables'].items()},
    }
