"""python3-vt harness/validate.py : validate MANIFEST.json and evidence files against the schemas."""
import glob, json, sys, jsonschema
m = json.load(open('/verif/MANIFEST.json'))
jsonschema.validate(m, json.load(open('/root/.vp/MANIFEST.schema.json')))
s = json.load(open('/root/.vp/EVIDENCE.schema.json'))
for c in m['checks']:
    p = '/verif/' + c['evidence_file']
    try:
        jsonschema.validate(json.load(open(p)), s)
    except FileNotFoundError:
        print('missing', p)
print('valid: manifest + %d evidence files' % len(m['checks']))
