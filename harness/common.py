"""Shared machinery for all checks: paths, TLC runner, case export parsing,
verdict/evidence/known-findings handling, process pool."""
import hashlib
import json
import multiprocessing
import os
import re
import shutil
import subprocess
import sys
import time

VERIF = os.path.dirname(os.path.dirname(os.path.abspath(__file__)))
REPO = os.environ.get('VERIF_REPO', '/repo')
SPEC = os.path.join(VERIF, 'spec')
# VERIF_BUILD / VERIF_EVIDENCE redirect scratch output and evidence when the
# checks are pointed at a mutated scratch copy (VERIF_REPO) for self-tests
BUILD = os.environ.get('VERIF_BUILD') or os.path.join(VERIF, 'build')
CACHE = os.path.join(VERIF, 'build', 'cache')
EVIDENCE = os.environ.get('VERIF_EVIDENCE') or os.path.join(VERIF, 'evidence')
SEED = int(os.environ.get('VERIF_SEED', '0') or 0)
NCPU = min(16, os.cpu_count() or 4)

TLC_CP = ('/opt/veriftools/tla/tla2tools.jar:'
          '/opt/veriftools/tla/CommunityModules-deps.jar')


class MachineryError(Exception):
    """Something in the verification machinery itself failed (exit 2)."""


def use_repo():
    """Make `import yatiml` resolve to the tree under test."""
    os.environ.setdefault('PYTHONDONTWRITEBYTECODE', '1')
    sys.dont_write_bytecode = True
    for name in list(sys.modules):
        if name == 'yatiml' or name.startswith('yatiml.'):
            del sys.modules[name]
    if REPO in sys.path:
        sys.path.remove(REPO)
    sys.path.insert(0, REPO)
    import yatiml  # noqa
    got = os.path.dirname(os.path.dirname(os.path.abspath(yatiml.__file__)))
    if os.path.realpath(got) != os.path.realpath(REPO):
        raise MachineryError('yatiml imported from %s, not %s' % (got, REPO))
    return yatiml


# ----------------------------------------------------------------- TLC ----
class TlcResult:
    def __init__(self):
        self.stdout = ''
        self.generated = 0
        self.distinct = 0
        self.depth = 0
        self.violated = []      # names of violated invariants/properties
        self.error = None       # TLC-level error text (not a violation)
        self.cases = []         # exported JSON cases
        self.wall = 0.0
        self.coverage = {}      # action name -> (distinct, total)
        self.cmd = ''
        self.complete = False


# TLC keeps only the low byte of every character of a string held in a
# state variable (U+0085 comes back as U+FF85, U+2028 as "("), so strings
# are handed to TLC in pure ASCII: every non-ASCII \\uXXXX escape of the JSON
# text becomes the literal text {uXXXX}, and is mapped back when the
# exported cases are parsed.  The specifications treat strings as opaque
# atoms, so any injective renaming is sound.
_TO_TLC_RE = re.compile(r'(\\\\)|\\u([0-9a-f]{4})')
_FROM_TLC_RE = re.compile(r'\{u([0-9a-f]{4})\}')


def to_tlc(json_text):
    """json_text: ASCII-only JSON (json.dumps default)."""
    def sub(m):
        if m.group(1) or int(m.group(2), 16) < 0x80:
            return m.group(0)
        return '{u%s}' % m.group(2)
    return _TO_TLC_RE.sub(sub, json_text)


def from_tlc(json_text):
    return _FROM_TLC_RE.sub(r'\\u\1', json_text)


_CASE_RE = re.compile(r'^<<"(CASE[A-Z0-9_]*)", (".*")>>$')


def parse_cases(stdout, into=None):
    cases = [] if into is None else into
    # split on '\n' only: atoms may contain U+0085 / U+2028, which
    # str.splitlines() treats as line breaks
    for line in stdout.split('\n'):
        line = line.rstrip('\r')
        if not line.startswith('<<"CASE'):
            continue
        m = _CASE_RE.match(line.strip())
        if not m:
            raise MachineryError('unparsable TLC export line: %r' % line[:200])
        try:
            payload = json.loads(from_tlc(json.loads(m.group(2))))
        except ValueError as e:
            raise MachineryError('bad JSON in TLC export: %s: %r' % (
                e, line[:200]))
        if m.group(1) != 'CASE':
            payload['_kind'] = m.group(1)
        cases.append(payload)
    return cases


def run_tlc(module, cfg, workers=None, timeout=3600, simulate=None,
            depth=None, coverage=False, env=None, name=None, seed=None,
            want_cases=True, extra=None, deque=False):
    """Run TLC on spec/<module>.tla with spec/<cfg>.  Returns TlcResult."""
    name = name or os.path.splitext(os.path.basename(cfg))[0]
    meta = os.path.join(BUILD, 'tlc', name)
    shutil.rmtree(meta, ignore_errors=True)
    os.makedirs(meta, exist_ok=True)
    workers = workers or NCPU
    jopts = ['-XX:+UseParallelGC', '-Xss16m']
    if deque:
        jopts.append('-Dtlc2.tool.queue.IStateQueue=StateDeque')
    cmd = ['java'] + jopts + ['-cp', TLC_CP, 'tlc2.TLC',
                              '-workers', str(workers), '-metadir', meta,
                              '-noGenerateSpecTE', '-config', cfg]
    if simulate:
        cmd += ['-simulate', simulate]
    if depth:
        cmd += ['-depth', str(depth)]
    if seed is not None:
        cmd += ['-seed', str(seed)]
    if coverage:
        cmd += ['-coverage', '1']
    if extra:
        cmd += list(extra)
    cmd.append(module if module.endswith('.tla') else module + '.tla')
    e = dict(os.environ)
    if env:
        e.update(env)
    t0 = time.time()
    try:
        p = subprocess.run(cmd, cwd=SPEC, env=e, stdout=subprocess.PIPE,
                           stderr=subprocess.STDOUT, timeout=timeout)
        out = p.stdout.decode('utf-8', 'replace')
        rc = p.returncode
    except subprocess.TimeoutExpired as ex:
        out = (ex.stdout or b'').decode('utf-8', 'replace')
        rc = -9
    r = TlcResult()
    r.cmd = ' '.join(cmd)
    r.wall = time.time() - t0
    r.stdout = out
    shutil.rmtree(meta, ignore_errors=True)
    m = None
    for m in re.finditer(r'(\d+) states generated, (\d+) distinct states '
                         r'found, (\d+) states left on queue', out):
        pass
    if m:
        r.generated, r.distinct = int(m.group(1)), int(m.group(2))
        r.complete = int(m.group(3)) == 0
    m = re.search(r'depth of the complete state graph search is (\d+)', out)
    if m:
        r.depth = int(m.group(1))
    r.violated = re.findall(r'Error: Invariant (\S+) is violated', out)
    r.violated += re.findall(
        r'Error: Action property (\S+) is violated', out)
    r.violated += re.findall(
        r'Error: Temporal properties were violated', out)
    if 'Error:' in out and not r.violated:
        i = out.index('Error:')
        r.error = out[i:i + 3000]
    if rc == -9:
        r.error = 'TLC timed out after %ss' % timeout
    if rc not in (0, 12, 13, -9) and not r.violated and not r.error:
        # 12/13 = safety/liveness violation
        r.error = 'TLC exit code %s\n%s' % (rc, out[-3000:])
    if want_cases:
        r.cases = parse_cases(out)
    if coverage:
        for m in re.finditer(
                r'^<(\w+) line \d+, col \d+ to line \d+, col \d+ of module '
                r'(\w+)>: (\d+):(\d+)', out, re.M):
            r.coverage[m.group(1)] = (int(m.group(3)), int(m.group(4)))
    return r


def tlc_counterexample(out, limit=60):
    """Extract the printed behaviour of a violated invariant."""
    i = out.find('Error: ')
    if i < 0:
        return ''
    lines = out[i:].splitlines()
    return '\n'.join(lines[:limit * 12])


# ------------------------------------------------------- known findings ----
def load_findings(pid):
    path = os.path.join(VERIF, 'known_findings.json')
    if not os.path.exists(path):
        return []
    with open(path) as f:
        data = json.load(f)
    return [e for e in data.get('findings', [])
            if e.get('property') == pid]


# ---------------------------------------------------------------- verdict --
class Verdict:
    """Collects the outcome of one check run and writes the evidence file."""

    def __init__(self, pid, tier, level='model_checking'):
        self.pid = pid
        self.tier = tier
        self.level = level
        self.t0 = time.time()
        self.violations = []
        self.known_hits = {}        # finding id -> list of details
        self.findings = {e['id']: e for e in load_findings(pid)}
        self.states = 0
        self.transitions = 0
        self.replayed = 0
        self.traces = 0
        self.evaluations = 0
        self.nontrivial = set()
        self.samples = []
        self.assumptions = []
        self.notes = {}
        self.tlc_runs = []
        self.exhaustive = None
        self.out_of_domain = 0
        self.replay_dir = os.path.join(BUILD, 'replay', pid)
        shutil.rmtree(self.replay_dir, ignore_errors=True)
        os.makedirs(self.replay_dir, exist_ok=True)

    # -- model level
    def add_tlc(self, r, what, expect_violation=None):
        """Account for one TLC run; a TLC error is a machinery failure, a
        violated invariant is a model-level violation of the property."""
        if r.error:
            raise MachineryError('TLC failed (%s): %s' % (what, r.error))
        self.states += r.distinct
        self.transitions += r.generated
        self.tlc_runs.append({
            'what': what, 'distinct_states': r.distinct,
            'states_generated': r.generated, 'depth': r.depth,
            'complete': r.complete, 'wall_s': round(r.wall, 1),
            'violated': r.violated})
        if r.violated and not expect_violation:
            path = os.path.join(
                self.replay_dir, 'tlc-%s.txt' % re.sub(r'\W', '_', what))
            with open(path, 'w') as f:
                f.write(r.cmd + '\n' + tlc_counterexample(r.stdout))
            self._violation_line(path, 'model: invariant %s violated in %s' % (
                ','.join(r.violated), what))

    def _violation_line(self, path, detail):
        self.violations.append({'replay': path, 'detail': detail})
        print('VIOLATION property=%s replay=%s' % (self.pid, path))
        print('  ' + detail.replace('\n', '\n  ')[:2000])
        sys.stdout.flush()

    # -- implementation level
    def violation(self, case, detail, finding=None):
        """Record a disagreement between implementation and property.
        `finding` is the id of a known finding whose classifier matched."""
        if finding is not None and finding in self.findings and \
                self.findings[finding].get('status') == 'known':
            self.known_hits.setdefault(finding, []).append(detail)
            return
        if len(self.violations) >= 25:
            self.violations.append({'replay': None, 'detail': 'suppressed'})
            return
        n = len(self.violations)
        path = os.path.join(self.replay_dir, 'case-%03d.json' % n)
        with open(path, 'w') as f:
            json.dump({'property': self.pid, 'detail': detail, 'case': case},
                      f, indent=1, default=repr)
        self._violation_line(path, detail)

    def sample(self, s, limit=5):
        if len(self.samples) < limit:
            self.samples.append(s)

    def finish(self, rule, extra=None):
        for fid, hits in sorted(self.known_hits.items()):
            e = self.findings[fid]
            print('KNOWN-FINDING: property=%s %s [%s] (%d case(s) this run, '
                  'e.g. %s)' % (self.pid, e['what'], fid, len(hits),
                                str(hits[0])[:300]))
        cov = {
            'states': self.states,
            'transitions': self.transitions,
            'traces_validated_against_impl': self.replayed + self.traces,
            'samples': self.samples or ['(none)'],
            'evaluations': self.evaluations,
            'distinct_nontrivial': len(self.nontrivial),
            'rule': rule,
            'replayed_spec_to_code': self.replayed,
            'recorded_traces_code_to_spec': self.traces,
            'out_of_domain': self.out_of_domain,
            'tlc_runs': self.tlc_runs,
            'known_finding_hits': {k: len(v)
                                   for k, v in self.known_hits.items()},
        }
        if self.exhaustive is not None:
            cov['exhaustive'] = bool(self.exhaustive)
        cov.update(self.notes)
        if extra:
            cov.update(extra)
        ev = {
            'property_id': self.pid,
            'tier': self.tier,
            'seed': SEED,
            'level': self.level,
            'coverage': cov,
            'assumptions': self.assumptions,
            'wall_s': round(time.time() - self.t0, 2),
            'violations': len(self.violations),
        }
        os.makedirs(EVIDENCE, exist_ok=True)
        with open(os.path.join(EVIDENCE, self.pid + '.json'), 'w') as f:
            json.dump(ev, f, indent=1, default=repr)
        print('%s %s: states=%d transitions=%d replayed=%d traces=%d '
              'evaluations=%d violations=%d known=%d wall=%.1fs' % (
                  self.pid, self.tier, self.states, self.transitions,
                  self.replayed, self.traces, self.evaluations,
                  len(self.violations), sum(map(len, self.known_hits.values())),
                  time.time() - self.t0))
        return 1 if self.violations else 0


# ------------------------------------------------------------------ pool ---
def chunked(seq, n):
    seq = list(seq)
    k = max(1, (len(seq) + n - 1) // n)
    return [seq[i:i + k] for i in range(0, len(seq), k)]


def fork_map(fn, chunks, procs=None):
    """fn over chunks in forked worker processes.  The parent's heap is
    frozen for the garbage collector first, so that the workers do not copy
    it page by page (the case lists of the thorough tier are several GB);
    a worker that dies (e.g. killed for memory) is a machinery failure, not
    a hang."""
    import concurrent.futures
    import gc
    procs = procs or NCPU
    ctx = multiprocessing.get_context('fork')
    gc.collect()
    gc.freeze()
    try:
        with concurrent.futures.ProcessPoolExecutor(
                max_workers=procs, mp_context=ctx) as ex:
            try:
                return list(ex.map(fn, chunks))
            except concurrent.futures.process.BrokenProcessPool as e:
                raise MachineryError('a worker process died (out of memory?)'
                                     ': %s' % e)
    finally:
        gc.unfreeze()


def pool_map(fn, items, procs=None, chunks_per_proc=4):
    """Run fn(chunk) -> list over chunks in a process pool (fork)."""
    procs = procs or NCPU
    items = list(items)
    if len(items) < 64 or procs == 1:
        return fn(items)
    chunks = chunked(items, procs * chunks_per_proc)
    parts = fork_map(fn, chunks, procs)
    out = []
    for p in parts:
        out.extend(p)
    return out


def stable_hash(obj):
    return hashlib.sha1(json.dumps(obj, sort_keys=True, default=repr)
                        .encode()).hexdigest()[:16]
