"""Spec -> code replay for the load pipeline: execute an exported TLC
behaviour (model, document type, composed document) on the real
yatiml.load_function and project the observables the specification predicts.
"""
import json
import os
import re

import modelgen
import render
from common import from_tlc, BUILD, MachineryError, use_repo

_ctx = {}


def ctx():
    if not _ctx:
        y = use_repo()
        _ctx['yatiml'] = y
        with open(os.path.join(BUILD, 'models.json')) as f:
            cat = json.loads(from_tlc(f.read()))
        _ctx['cat'] = cat
        _ctx['models'] = {m['id']: m for m in cat['models']}
        _ctx['implicit'] = {v: t for v, t in cat['implicit']}
        _ctx['built'] = {}
        _ctx['load'] = {}
    return _ctx


def built(mid, flavor=0, extra=False):
    c = ctx()
    key = (mid, flavor)
    if key not in c['built']:
        c['built'][key] = modelgen.Built(c['models'][mid], c['yatiml'], flavor)
    return c['built'][key]


class _Unrelated:
    """An unrelated registered class (C13: registering it changes nothing)."""
    def __init__(self, zzz_unrelated: int) -> None:
        self.zzz_unrelated = zzz_unrelated


def load_fn(mid, dt, flavor=0, extra=False, regperm=0):
    c = ctx()
    key = (mid, json.dumps(dt), flavor, extra, regperm)
    if key not in c['load']:
        b = built(mid, flavor)
        reg = list(b.registered)
        if regperm == 1:
            reg = list(reversed(reg))
        elif regperm > 1:
            k = regperm % max(1, len(reg))
            reg = reg[k:] + reg[:k]
        if extra:
            reg = reg + [_Unrelated]
        c['load'][key] = c['yatiml'].load_function(b.pytype(dt), *reg)
    return c['load'][key]


POS_RE = re.compile(r'line (\d+), column (\d+)')
KEY_RE = re.compile(r'"([^"\n]*)"')


_audit = {'on': False, 'events': [], 'installed': False}


def _audit_hook(event, args):
    if not _audit['on']:
        return
    if event == 'import' and args and 'verif_canary' in str(args[0]):
        _audit['events'].append('import ' + str(args[0]))
    elif event in ('os.system', 'subprocess.Popen', 'os.exec',
                   'os.posix_spawn', 'os.fork'):
        _audit['events'].append(event)


def observe(case, style='flow', flavor=0, extra=False, regperm=0,
            doc=None, want_value=False, canary=False):
    """Run one load.  Returns a JSON-able observation."""
    c = ctx()
    y = c['yatiml']
    mid = case['model']
    dt = case['dt']
    doc = doc if doc is not None else case['doc']
    if not isinstance(doc['h'], list):
        doc = {'h': [], 'r': doc['r']}
    text, _ = render.render(doc, c['implicit'], style)
    lines = render.check_faithful(doc, text, c['implicit'])
    b = built(mid, flavor)
    fn = load_fn(mid, dt, flavor, extra, regperm)
    del modelgen.LOG[:]
    obs = {'text': text, 'style': style, 'flavor': flavor, 'lines': lines}
    if canary:
        import sys
        if not _audit['installed']:
            sys.addaudithook(_audit_hook)
            _audit['installed'] = True
        sys.modules.pop('verif_canary', None)
        _audit['events'] = []
        _audit['on'] = True
    try:
        v = fn(text)
        obs['outcome'] = 'VAL'
        obs['value'] = b.abstract(v)
        obs['conforms'] = b.conforms(v, dt)
        obs['pyrepr'] = repr(v)[:200]
    except Exception as e:  # noqa
        obs['outcome'] = 'ERR'
        obs['errclass'] = modelgen.exc_class(y, e)
        obs['message'] = str(e)[:1500]
        obs['cited'] = [[int(a), int(bb)] for a, bb in
                        POS_RE.findall(str(e))]
        obs['quoted'] = KEY_RE.findall(str(e))
    if canary:
        import sys
        _audit['on'] = False
        ev = list(_audit['events'])
        if 'verif_canary' in sys.modules:
            ev.append('verif_canary in sys.modules')
        obs['canary'] = ev
    log = []
    for kind, defcls, clsarg, kw in modelgen.LOG:
        if kind == 'init':
            log.append(['init', defcls, clsarg, b.norm_kwargs(defcls, kw)])
        else:
            log.append([kind, defcls, clsarg])
    obs['log'] = log
    # every logged constructor call received conforming arguments?
    bad = []
    for kind, defcls, clsarg, kw in modelgen.LOG:
        if kind != 'init':
            continue
        cm = b.byname[defcls]
        for p in cm['params']:
            val = dict(kw).get(p['name'])
            if not b.conforms(val, p['type']):
                if not p['required'] and b.abstract(val) == list(p['default']):
                    continue
                bad.append([defcls, p['name'], repr(val)[:80]])
        if cm['extra']:
            ex = dict(kw).get('_yatiml_extra')
            if ex is not None and not (isinstance(ex, dict) and all(
                    type(a) is str and b.plain(x) for a, x in ex.items())):
                bad.append([defcls, '_yatiml_extra', repr(ex)[:80]])
    obs['bad_ctor_args'] = bad
    del modelgen.LOG[:]
    return obs


def expected_value(case, flavor=0):
    b = built(case['model'], flavor)
    return b.normalise(case['res'][1])


def spec_log(case, flavor=0):
    """The specification's history variable in the observation's shape."""
    b = built(case['model'], flavor)
    out = []
    log = case['log'] if isinstance(case['log'], list) else []
    for e in log:
        if e[0] == 'init':
            kw = {}
            flat = e[2] if isinstance(e[2], list) else []
            for i in range(0, len(flat), 2):
                kw[flat[i]] = b.normalise(flat[i + 1])
            out.append(['init', e[1], kw])
        else:
            out.append([e[0], e[1]])
    return out


def obs_log(obs, model):
    """sav/init entries of the observed log, defaults filled in like the
    generated __init__ sees them."""
    out = []
    for e in obs['log']:
        if e[0] == 'init':
            out.append(['init', e[1], e[3]])
        elif e[0] == 'sav':
            out.append(['sav', e[1]])
    return out


def fill_defaults(case, entry, flavor=0):
    """init entry of the spec log -> kwargs including defaulted parameters."""
    b = built(case['model'], flavor)
    c = b.byname[entry[1]]
    kw = {}
    for p in c['params']:
        if not p['required']:
            kw[p['name']] = b.normalise(p['default'])
    if c['extra']:
        kw['_yatiml_extra'] = ['odict', []]
    kw.update(entry[2])
    return ['init', entry[1], kw]


def is_subsequence(a, b):
    it = iter(b)
    return all(any(x == yv for yv in it) for x in a)
