"""C14 - yatiml.Node accessors behave like an ordered map and a typed scalar.

(a) spec/NodeMap.tla: every operation history up to a bound (and random long
    ones from TLC's simulation mode) replayed on a real Node; every return
    value and the wrapped node after every call compared with the ordered-map
    specification.
(b) spec/RemoveDefaults.tla: all (signature default, _yatiml_defaults
    override, value) triples over the scalar kinds.
(c) get_value() on parsed scalars: for the witness spelling of every state of
    the Resolver product automaton (spec/Resolver.tla) the value must be what
    PyYAML constructs for that tag.
"""
import io
import json
import math
import os
import random
import typing

import yaml

from common import (BUILD, NCPU, SEED, MachineryError, Verdict, chunked,
                    pool_map, run_tlc, use_repo)

PRE = 'tag:yaml.org,2002:'
_y = {}


def Y():
    if not _y:
        _y['y'] = use_repo()
    return _y['y']


def mk_value_node(v):
    if v[0] == 's':
        return yaml.ScalarNode(PRE + v[1], v[2])
    if v[0] == 'q':
        return yaml.SequenceNode(PRE + 'seq', [yaml.ScalarNode(PRE + 'int',
                                                               '1')])
    return yaml.MappingNode(PRE + 'map', [(yaml.ScalarNode(PRE + 'str', 'x'),
                                           yaml.ScalarNode(PRE + 'int', '1'))])


def mk_map(m):
    return yaml.MappingNode(PRE + 'map', [
        (yaml.ScalarNode(PRE + 'str', k), mk_value_node(v)) for k, v in m])


def mk_map_shared(m):
    """The same mapping as a composed document would give it: every node has
    start and end marks, and equal scalar values are ONE node object (as with
    `a: &x 1` / `b: *x`), so that an in-place edit of a value leaks."""
    def mark(i, col):
        return yaml.Mark('<verif>', 0, i, col, None, None)
    cache = {}
    items = []
    for i, (k, v) in enumerate(m):
        vn = cache.get(json.dumps(v)) if v[0] == 's' else None
        if vn is None:
            vn = mk_value_node(v)
            vn.start_mark, vn.end_mark = mark(i, 4), mark(i, 8)
            if v[0] == 's':
                cache[json.dumps(v)] = vn
        kn = yaml.ScalarNode(PRE + 'str', k, mark(i, 0), mark(i, 2))
        items.append((kn, vn))
    return yaml.MappingNode(PRE + 'map', items, mark(0, 0),
                            mark(len(m), 0))


def proj_val(n):
    if isinstance(n, yaml.ScalarNode):
        t = n.tag
        t = t[len(PRE):] if t.startswith(PRE) else t
        # the text of a null scalar is not specified ('' or 'None' or '~')
        return ['s', t, '' if t == 'null' else n.value]
    if isinstance(n, yaml.SequenceNode):
        return ['q']
    if isinstance(n, yaml.MappingNode):
        return ['m']
    return ['?', repr(n)]


def proj_self(n):
    if isinstance(n, yaml.MappingNode):
        return ['m'], [[k.value, proj_val(v)] for k, v in n.value]
    if isinstance(n, yaml.ScalarNode):
        return proj_val(n), []
    return ['q'], []


def pyval(v):
    k, t = v
    return {'str': lambda: t, 'int': lambda: int(t), 'float': lambda: float(t),
            'bool': lambda: t == 'true', 'null': lambda: None}[k]()


PYTYPE = {'str': str, 'int': int, 'float': float, 'bool': bool, 'null': None,
          'list': list, 'dict': dict}


def run_history(case):
    errs = run_history_on(case, mk_map)
    if not errs:
        errs = ['(nodes with marks, equal scalars shared) ' + e
                for e in run_history_on(case, mk_map_shared)]
    return errs


def run_history_on(case, make):
    y = Y()
    init = case['init'] if isinstance(case['init'], list) else []
    node = y.Node(make(init))
    errs = []
    for i, h in enumerate(case['hist']):
        op, args, exp = h['op'], h['args'], h['ret']
        args = args if isinstance(args, list) else []
        got = None
        try:
            if op == 'has_attribute':
                got = ['bool', node.has_attribute(args[0])]
            elif op == 'get_attribute':
                try:
                    r = node.get_attribute(args[0])
                    got = ['node', proj_val(r.yaml_node)]
                except (KeyError, y.SeasoningError):
                    got = ['raises']
            elif op == 'set_attribute':
                node.set_attribute(args[0], pyval(args[1]))
                got = ['none']
            elif op == 'remove_attribute':
                node.remove_attribute(args[0])
                got = ['none']
            elif op == 'rename_attribute':
                node.rename_attribute(args[0], args[1])
                got = ['none']
            elif op == 'has_attribute_type':
                got = ['bool', node.has_attribute_type(args[0],
                                                       PYTYPE[args[1]])]
            elif op == 'is_empty':
                got = ['bool', node.is_empty()]
            elif op == 'classify':
                s, m_, q = node.is_scalar(), node.is_mapping(), \
                    node.is_sequence()
                tag = ''
                if s:
                    hits = [k for k, t in (('str', str), ('int', int),
                                           ('float', float), ('bool', bool),
                                           ('null', None))
                            if node.is_scalar(t)]
                    if len(hits) != 1:
                        errs.append('step %d: is_scalar(type) true for %s' % (
                            i, hits))
                    tag = hits[0] if hits else ''
                got = ['kinds', s, m_, q, tag]
                if [s, m_, q].count(True) != 1:
                    errs.append('step %d: is_scalar/is_mapping/is_sequence = '
                                '%s' % (i, [s, m_, q]))
            elif op == 'set_value':
                v = pyval(args[0])
                node.set_value(v)
                got = ['none']
                if not node.is_scalar(type(v) if v is not None else None):
                    errs.append('step %d: after set_value(%r) is_scalar(%s) '
                                'is False' % (i, v, type(v).__name__))
            elif op == 'get_value':
                v = node.get_value()
                exp_v = pyval([exp[1], exp[2]]) if exp[1] != 'null' else None
                got = list(exp) if (type(v) is type(exp_v) and v == exp_v) \
                    else ['value', type(v).__name__, repr(v)]
            elif op == 'make_mapping':
                node.make_mapping()
                got = ['none']
            else:
                raise MachineryError('unknown op %r' % op)
        except MachineryError:
            raise
        except Exception as e:  # noqa
            got = ['exception', type(e).__name__, str(e)[:100]]
        if got != list(exp):
            errs.append('step %d %s%s: returned %s, ordered-map model says %s'
                        % (i, op, tuple(args), got, exp))
            break
        s, m_ = proj_self(node.yaml_node)
        em = h['m'] if isinstance(h['m'], list) else []
        if s != list(h['self']) or m_ != [[k, list(v)] for k, v in em]:
            errs.append('step %d %s%s: node is %s %s, ordered-map model says '
                        '%s %s' % (i, op, tuple(args), s, m_, h['self'], em))
            break
    return errs


def _hist_chunk(cases):
    return [run_history(c) for c in cases]


# ------------------------------------------------------------ (b) defaults --
def dumper_node(v):
    d = yaml.SafeDumper(io.StringIO())
    try:
        return d.represent_data(v)
    finally:
        d.dispose()


def scalar_py(s):
    k, t = s
    if k == 'float':
        return float(t)
    return pyval([k, t])


def run_defaults(case):
    y = Y()
    sig = scalar_py(case['sigdef'])
    ns = {'typing': typing, '_d': sig}
    exec('class C:\n'
         '    def __init__(self, r: int, p: typing.Any = _d, q: int = 3)'
         ' -> None:\n        pass\n', ns)
    C = ns['C']
    if case['override'] != ['none']:
        C._yatiml_defaults = {'p': scalar_py(case['override'])}
    pairs = []
    for name, v in (('r', 9), ('p', scalar_py(case['value'])),
                    ('q', scalar_py(case['qvalue']))):
        pairs.append((yaml.ScalarNode(PRE + 'str', name), dumper_node(v)))
    node = y.Node(yaml.MappingNode(PRE + 'map', pairs))
    try:
        node.remove_attributes_with_default_values(C)
    except Exception as e:  # noqa
        return ['remove_attributes_with_default_values raised %s: %s for '
                'default %r (override %r), value %r' % (
                    type(e).__name__, e, case['sigdef'], case['override'],
                    case['value'])]
    keys = [k.value for k, _ in node.yaml_node.value]
    errs = []
    if 'r' not in keys:
        errs.append('required attribute r was removed')
    for name, exp in (('p', case['p']), ('q', case['q'])):
        got = 'kept' if name in keys else 'removed'
        if exp != 'dontcare' and got != exp:
            errs.append('attribute %s %s, expected %s: default %r override %r '
                        'value %r' % (name, got, exp, case['sigdef'],
                                      case['override'],
                                      case['value'] if name == 'p'
                                      else case['qvalue']))
    if keys != [k for k in ('r', 'p', 'q') if k in keys]:
        errs.append('order of remaining attributes changed: %s' % keys)
    # a subclass with its own signature default, processed AFTER its base:
    # what was found for the base must not be reused for it.  The subclass
    # has no _yatiml_defaults of its own; where the base has none either, its
    # default for p is the attribute value itself, and the specification's
    # verdict for (default = value, no override, value) applies.
    if not errs and case['override'] == ['none']:
        exp = _DEF_INDEX.get(json.dumps([case['value'], ['none'],
                                         case['value']]))
        if exp in ('kept', 'removed'):
            ns2 = {'typing': typing, '_d': scalar_py(case['value']), 'C': C}
            exec('class D(C):\n'
                 '    def __init__(self, r: int, p: typing.Any = _d, '
                 'q: int = 3) -> None:\n        pass\n', ns2)
            pairs = [(yaml.ScalarNode(PRE + 'str', 'r'), dumper_node(9)),
                     (yaml.ScalarNode(PRE + 'str', 'p'),
                      dumper_node(scalar_py(case['value'])))]
            node = y.Node(yaml.MappingNode(PRE + 'map', pairs))
            try:
                node.remove_attributes_with_default_values(ns2['D'])
                got = 'kept' if any(k.value == 'p' for k, _ in
                                    node.yaml_node.value) else 'removed'
            except Exception as e:  # noqa
                got = 'raised %s' % type(e).__name__
            if got != exp:
                errs.append('subclass processed after its base: attribute p '
                            '%s, expected %s: base default %r, subclass '
                            'default = value %r' % (got, exp, case['sigdef'],
                                                    case['value']))
    return errs


_DEF_INDEX = {}


def _def_chunk(cases):
    return [run_defaults(c) for c in cases]


# ------------------------------------------------- (c) get_value vs loading --
def construct(tag, text):
    node = yaml.ScalarNode(PRE + tag, text)
    ld = yaml.SafeLoader('')
    try:
        return ('ok', ld.construct_object(node, deep=True))
    except Exception as e:  # noqa
        return ('exc', type(e).__name__)
    finally:
        ld.dispose()


def same(a, b):
    if isinstance(a, float) and isinstance(b, float):
        return (math.isnan(a) and math.isnan(b)) or (
            a == b and math.copysign(1, a) == math.copysign(1, b))
    return type(a) is type(b) and a == b


def run_getvalue(item):
    y = Y()
    tag, text = item
    exp = construct(tag, text)
    if exp[0] != 'ok':
        return []           # PyYAML itself cannot construct it: out of domain
    node = y.Node(yaml.ScalarNode(PRE + tag, text))
    try:
        got = node.get_value()
    except Exception as e:  # noqa
        return ['get_value() on %s scalar %r raised %s: %s; a load constructs '
                '%r' % (tag, text, type(e).__name__, e, exp[1])]
    if not same(got, exp[1]):
        return ['get_value() on %s scalar %r returned %r, a load constructs %r'
                % (tag, text, got, exp[1])]
    return []


def _gv_chunk(items):
    return [run_getvalue(i) for i in items]


def run(tier, replay=None):
    V = Verdict('C14', tier)
    V.assumptions = [
        'nodes are built as PyYAML composes / represents them; values of '
        'attributes are opaque to the map operations',
        'get_value() is compared with PyYAML\'s SafeConstructor on the '
        'spellings TLC found for every state of the resolver product '
        'automaton',
    ]
    if replay:
        rec = json.load(open(replay))
        c = rec['case']
        errs = {'hist': run_history, 'defaults': run_defaults,
                'getvalue': run_getvalue}[c['part']](c['case'])
        for e in errs:
            print(e)
        return 1 if errs else 0
    # (a) histories
    cfg = 'MC_NodeMap_q.cfg' if tier == 'quick' else 'MC_NodeMap_t.cfg'
    r = run_tlc('MC_NodeMap', cfg, timeout=7200)
    V.add_tlc(r, 'NodeMap histories ' + cfg)
    rs = run_tlc('MC_NodeMap', 'MC_NodeMap_sim.cfg', workers=1,
                 simulate='num=%d' % (1500 if tier == 'quick' else 20000),
                 depth=13, seed=SEED, name='nodemap-sim', timeout=3600)
    if rs.error:
        raise MachineryError('TLC simulation failed: %s' % rs.error)
    V.tlc_runs.append({'what': 'NodeMap simulation (length 12)',
                       'behaviours': len(rs.cases)})
    cases = r.cases + rs.cases
    if len(cases) < 100:
        raise MachineryError('too few NodeMap behaviours: %d' % len(cases))
    res = pool_map(_hist_chunk, cases)
    for c, errs in zip(cases, res):
        V.replayed += 1
        V.evaluations += len(c['hist'])
        ops = tuple(h['op'] for h in c['hist'])
        if any(o in ('set_attribute', 'remove_attribute', 'rename_attribute',
                     'set_value', 'make_mapping') for o in ops):
            V.nontrivial.add(json.dumps([c['init'], [
                [h['op'], h['args']] for h in c['hist']]]))
        for e in errs:
            V.violation({'part': 'hist', 'case': c}, e)
    V.sample({'initial_mapping': cases[len(cases) // 2]['init'],
              'history': [[h['op'], h['args'], h['ret']]
                          for h in cases[len(cases) // 2]['hist']]})
    # (b) defaults
    rd = run_tlc('MC_RemoveDefaults', 'MC_RemoveDefaults.cfg', timeout=600)
    V.add_tlc(rd, 'RemoveDefaults all (default, override, value) triples')
    _DEF_INDEX.clear()
    _DEF_INDEX.update({json.dumps([c['sigdef'], c['override'], c['value']]):
                       c['p'] for c in rd.cases})
    res = pool_map(_def_chunk, rd.cases)
    for c, errs in zip(rd.cases, res):
        V.replayed += 1
        V.evaluations += 1
        V.nontrivial.add(json.dumps(c, sort_keys=True))
        for e in errs:
            V.violation({'part': 'defaults', 'case': c}, e)
    V.sample(rd.cases[len(rd.cases) // 3])
    # (d) set_value on nodes that carry any built-in tag (OpSetValue's
    #     postcondition does not depend on what the node was before)
    y = Y()
    n_sv = 0
    for tag, text in (('timestamp', '1999-12-31'), ('binary', 'aGk='),
                      ('value', '='), ('merge', '<<'), ('null', ''),
                      ('float', '1.5'), ('str', 'x')):
        for val in ('v', 7, 2.5, False, None):
            for kind in ('s', 'q', 'm'):
                if kind == 's':
                    nd = yaml.ScalarNode(PRE + tag, text)
                elif kind == 'q':
                    nd = yaml.SequenceNode(PRE + ('seq' if tag == 'str'
                                                  else 'omap'), [])
                else:
                    nd = yaml.MappingNode(PRE + ('map' if tag == 'str'
                                                 else 'set'), [])
                n = y.Node(nd)
                n_sv += 1
                try:
                    n.set_value(val)
                    okk = n.is_scalar(type(val) if val is not None else None)
                    gv = n.get_value()
                    okk = okk and type(gv) is type(val) and gv == val
                except Exception as e:  # noqa
                    okk = False
                    gv = '%s: %s' % (type(e).__name__, e)
                if not okk:
                    V.violation({'part': 'set_value', 'tag': tag,
                                 'kind': kind, 'value': repr(val)},
                                'set_value(%r) on a %s node tagged !!%s: '
                                'afterwards is_scalar(%s) / get_value() give '
                                '%r' % (val, kind, nd.tag[len(PRE):],
                                        type(val).__name__, gv))
    V.evaluations += n_sv
    # (c) get_value on parsed scalars
    import check_c09
    import regex2dfa
    tables, x = check_c09.build_tables()
    tj = regex2dfa.to_tla_json(x)
    tj['alphabet'] = sorted({x['find'](ord(ch)) + 1
                             for ch in check_c09.ALPHABET_SMALL})
    tj['nl'] = x['find'](10) + 1
    path = os.path.join(BUILD, 'ResolverTables.json')
    with open(path, 'w') as f:
        json.dump(tj, f)
    rr = run_tlc('Resolver', 'Resolver_product.cfg',
                 env={'RESOLVER_TABLES': path}, timeout=1800,
                 name='resolver-c14')
    V.add_tlc(rr, 'Resolver product automaton (witness spellings)')
    check_c09._X['x'] = x
    items = set()
    for c in rr.cases:
        if not c['dom'] or c['loader'] not in ('int', 'float', 'bool', 'null',
                                               'str'):
            continue
        for s in check_c09.words_of(c, x, 2):
            items.add((c['loader'], s))
    items |= {('bool', 'yes'), ('bool', 'No'), ('bool', 'on'), ('int', '0x1F'),
              ('int', '017'), ('int', '0b11'), ('int', '1_000'),
              ('int', '1:30'), ('float', '1:30.5'), ('float', '.inf'),
              ('float', '-.INF'), ('float', '.NaN'), ('float', '1_0.5'),
              ('null', '~'), ('null', ''), ('null', 'Null'), ('str', '')}
    items = sorted(items)
    res = pool_map(_gv_chunk, items)
    for it, errs in zip(items, res):
        V.evaluations += 1
        V.nontrivial.add('gv' + json.dumps(it))
        for e in errs:
            V.violation({'part': 'getvalue', 'case': list(it)}, e)
    V.notes['get_value_spellings'] = len(items)
    V.exhaustive = True
    return V.finish(
        'NodeMap: every operation history up to the bound over 3 keys plus '
        'random histories of length 12 from TLC simulation (non-trivial = '
        'contains a mutating operation); RemoveDefaults: all triples; '
        'get_value: witness spellings of the resolver product automaton')
