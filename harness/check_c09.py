"""C09 - plain scalars are typed by YAML 1.2 rules for booleans and floats.

Model: spec/Resolver.tla.  The implementation side of the model is extracted
from the live resolver tables (regex -> DFA, harness/regex2dfa.py); the
reference side is hand-written TLA+ (YAML 1.2 float and bool automata, PyYAML's
pristine table for the other tags).  TLC explores the complete product
automaton (all strings of all lengths) and all words up to a length bound over
the number/boolean alphabet; every explored state is exported with a witness
string and executed end to end on the real Loader.resolve and load function.
"""
import datetime
import itertools
import json
import math
import os
import random
import re
import subprocess

import yaml

import regex2dfa
from common import (BUILD, SEED, MachineryError, Verdict, pool_map, run_tlc,
                    use_repo)

PRE = 'tag:yaml.org,2002:'
ALPHABET_CHARS = '0123456789+-._:eEinfaNAIFtruTRUlsLS yYoxb~<=\n'
ALPHABET_SMALL = '019+-._:eEinfaNtrus xyT'


def pristine_tables():
    """PyYAML's implicit resolvers as shipped, from an interpreter that never
    imported yatiml."""
    code = ('import yaml, json\n'
            't = yaml.resolver.Resolver.yaml_implicit_resolvers\n'
            'print(json.dumps([[k, [[tag, r.pattern, r.flags] for tag, r in v]]'
            ' for k, v in t.items()]))')
    out = subprocess.run(['/venv/bin/python', '-S', '-c',
                          'import sys; sys.path.insert(0, '
                          '"/venv/lib/python3.12/site-packages")\n' + code],
                         stdout=subprocess.PIPE, check=True,
                         env={'PATH': os.environ.get('PATH', '')}).stdout
    cache = {}
    tbl = {}
    for k, lst in json.loads(out):
        ent = []
        for tag, pat, flags in lst:
            key = (pat, flags)
            if key not in cache:
                cache[key] = re.compile(pat, flags)
            ent.append((tag, cache[key]))
        tbl[k] = ent
    return tbl


def reference_sets():
    """Character sets the hand-written reference automata distinguish."""
    sets = []
    for ch in ALPHABET_CHARS:
        sets.append(((ord(ch), ord(ch)),))
    return sets


_live = {}


def live():
    if not _live:
        y = use_repo()
        lf = y.load_function()
        _live['load'] = lf
        _live['loader'] = lf.loader('')
        _live['dumper_cls'] = y.dumps_function().dumper
        _live['rec_error'] = y.RecognitionError
        # typed loads: a plain scalar is accepted where exactly its YAML 1.2
        # type is declared
        _live['typed'] = {'float': y.load_function(float),
                          'int': y.load_function(int),
                          'bool': y.load_function(bool),
                          'str': y.load_function(str)}
    return _live


def build_tables():
    st = live()
    tables = {
        'loader': st['loader'].yaml_implicit_resolvers,
        'dumper': st['dumper_cls'].yaml_implicit_resolvers,
        'pristine': pristine_tables(),
    }
    x = regex2dfa.extract(tables, reference_sets())
    return tables, x


def translator_selfcheck(x, maxlen, rnd):
    """The DFA verdict must equal pattern.match on the live regexes."""
    reps = [r for r in x['reps']]
    find = x['find']
    n = 0
    pats = x['patterns']
    # all words up to maxlen over first representatives (+ '\n' handling)
    base = [r[0] for r in reps]
    for L in range(0, maxlen + 1):
        for w in itertools.product(base, repeat=L):
            s = ''.join(w)
            for rx, d in zip(pats, x['dfas']):
                n += 1
                if regex2dfa.run_dfa(d, find, s) != bool(rx.match(s)):
                    raise MachineryError(
                        'regex->DFA translator disagrees with re.match: '
                        'pattern %r string %r' % (rx.pattern, s))
    # random longer words over all representatives
    allreps = [c for r in reps for c in r]
    for _ in range(20000):
        s = ''.join(rnd.choice(allreps) for _ in range(rnd.randint(3, 12)))
        for rx, d in zip(pats, x['dfas']):
            n += 1
            if regex2dfa.run_dfa(d, find, s) != bool(rx.match(s)):
                raise MachineryError(
                    'regex->DFA translator disagrees with re.match: '
                    'pattern %r string %r' % (rx.pattern, s))
    return n


def is_single_plain_scalar(s):
    try:
        toks = list(yaml.scan(s))
    except yaml.YAMLError:
        return False
    kinds = [type(t).__name__ for t in toks]
    if kinds != ['StreamStartToken', 'ScalarToken', 'StreamEndToken']:
        return False
    t = toks[1]
    return t.plain and t.value == s


def ref_float_value(s):
    t = s.lstrip('+-')
    neg = s.startswith('-')
    if t.lower() == '.inf':
        return -math.inf if neg else math.inf
    if t.lower() == '.nan':
        return math.nan
    return float(s)


def same_float(a, b):
    if math.isnan(a) or math.isnan(b):
        return math.isnan(a) and math.isnan(b)
    return a == b and math.copysign(1, a) == math.copysign(1, b)


def words_of(case, x, k):
    """Concrete strings for a symbolic word: first reps, then alternates."""
    reps = x['reps']
    w = case['word'] if isinstance(case['word'], list) else []
    out = [''.join(reps[c - 1][0] for c in w)]
    for j in range(1, k):
        out.append(''.join(reps[c - 1][(j + i) % len(reps[c - 1])]
                           for i, c in enumerate(w)))
    return list(dict.fromkeys(out))


_MIXABLE = re.compile(r'^[A-Za-z0-9.+_~-]+$')


def check_word(s, case):
    """End-to-end checks of one concrete string.  Returns list of
    (kind, detail)."""
    st = live()
    errs = []
    ref = case['ref']
    # the extracted model must describe the code (translation validation)
    node_tag = st['loader'].resolve(yaml.ScalarNode, s, (True, False))
    got = node_tag[len(PRE):] if node_tag.startswith(PRE) else node_tag
    if got != case['loader']:
        raise MachineryError('model of the resolver table disagrees with '
                             'Loader.resolve on %r: %s vs %s' % (
                                 s, case['loader'], got))
    if got != ref:
        errs.append(('resolve', 'plain scalar %r resolves to %s, YAML 1.2 '
                     'reference says %s' % (s, got, ref)))
    if not is_single_plain_scalar(s):
        return errs, False
    if ref in ('merge', 'value'):
        return errs, False
    try:
        v = st['load'](s)
    except yaml.YAMLError:
        return errs, True
    except Exception as e:  # noqa
        if got in ('float', 'bool') or ref in ('float', 'bool'):
            errs.append(('construct', 'load(%r) raised %s: %s (resolved as %s,'
                         ' reference %s)' % (s, type(e).__name__, e, got,
                                             ref)))
        return errs, True
    ok = True
    if ref == 'float':
        ok = type(v) is float and same_float(v, ref_float_value(s))
    elif ref == 'bool':
        ok = type(v) is bool and v == (s.lower() == 'true')
    elif ref == 'int':
        ok = type(v) is int
    elif ref == 'null':
        ok = v is None
    elif ref == 'timestamp':
        ok = isinstance(v, datetime.date)
    elif ref == 'str':
        ok = type(v) is str and v == s
    if not ok:
        errs.append(('value', 'load(%r) = %r (%s), reference type %s' % (
            s, v, type(v).__name__, ref)))
    if ok and ref in ('float', 'int', 'bool', 'str'):
        # typed loading follows the same table: accepted as its reference
        # type with the same value, rejected as the other scalar types
        for tname, fn in st['typed'].items():
            try:
                tv = fn(s)
            except st['rec_error']:
                if tname == ref:
                    errs.append(('value', 'load_function(%s)(%r) is rejected, '
                                 'although the scalar is a YAML 1.2 %s' % (
                                     tname, s, ref)))
                continue
            except Exception as e:  # noqa
                errs.append(('value', 'load_function(%s)(%r) raised %s: %s' % (
                    tname, s, type(e).__name__, str(e)[:100])))
                continue
            same_v = (type(tv) is type(v) and
                      (same_float(tv, v) if type(v) is float else tv == v))
            if tname != ref or not same_v:
                errs.append(('value', 'load_function(%s)(%r) = %r; the scalar '
                             'is a YAML 1.2 %s and load() gives %r' % (
                                 tname, s, tv, ref, v)))
    if not ok:
        pass
    elif _MIXABLE.match(s):
        # the same text quoted and plain in one document: the quoted one is
        # a string, the plain one what it is on its own, in either order
        q = json.dumps(s)

        def same(a, b):
            if type(a) is float and type(b) is float:
                return same_float(a, b)
            return type(a) is type(b) and a == b
        for text, exp in (('[%s, %s]' % (q, s), [s, v]),
                          ('[%s, %s]' % (s, q), [v, s]),
                          ('{a: %s, b: %s, c: %s}' % (s, q, s),
                           {'a': v, 'b': s, 'c': v})):
            try:
                got2 = st['load'](text)
            except Exception as e:  # noqa
                errs.append(('value', 'load(%r) raised %s: %s' % (
                    text, type(e).__name__, str(e)[:150])))
                break
            g = list(got2.values()) if isinstance(got2, dict) else got2
            x = list(exp.values()) if isinstance(exp, dict) else exp
            if not (isinstance(g, list) and len(g) == len(x) and
                    all(same(a, b) for a, b in zip(g, x))):
                errs.append(('value', 'load(%r) = %r, expected %r: a quoted '
                             'and a plain scalar with the same text influence '
                             'each other' % (text, got2, exp)))
                break
    return errs, True


_X = {}


def _chunk(cases):
    out = []
    for c in cases:
        res = []
        n = 0
        for s in words_of(c, _X['x'], _X['k']):
            errs, e2e = check_word(s, c)
            n += 1 + (1 if e2e else 0)
            res.extend((kind, d, s) for kind, d in errs)
        out.append((res, n))
    return out


def classify(case, kind, detail, s):
    """Known-finding classifier: F1 = unanchored prefix match."""
    return None


def run(tier, replay=None):
    V = Verdict('C09', tier)
    V.assumptions = [
        'PyYAML Resolver.resolve semantics (bucket by first character, first '
        'match wins, regexp.match) as transcribed in spec/Resolver.tla',
        're._parser is a faithful parser of the live patterns (checked: DFA '
        'verdict = pattern.match on all short words and random longer ones)',
        'the reference for int/null/timestamp/merge/value is PyYAML\'s table '
        'read in an interpreter that never imported yatiml',
    ]
    rnd = random.Random(SEED)
    tables, x = build_tables()
    if x['unsupported']:
        raise MachineryError('unsupported regex construct in resolver table: '
                             '%r' % (x['unsupported'],))
    _X['x'] = x
    _X['k'] = 2 if tier == 'quick' else 4
    if replay:
        rec = json.load(open(replay))
        c = rec['case']
        errs, _ = check_word(c['string'], c['case'])
        for e in errs:
            print(e)
        return 1 if errs else 0

    nsc = translator_selfcheck(x, 2 if tier == 'quick' else 3, rnd)
    V.notes['translator_selfcheck_pairs'] = nsc
    tj = regex2dfa.to_tla_json(x)
    find = x['find']
    alpha = ALPHABET_SMALL if tier == 'quick' else ALPHABET_CHARS
    tj['alphabet'] = sorted({find(ord(ch)) + 1 for ch in alpha})
    tj['nl'] = find(10) + 1
    os.makedirs(BUILD, exist_ok=True)
    path = os.path.join(BUILD, 'ResolverTables.json')
    with open(path, 'w') as f:
        json.dump(tj, f)
    V.notes['char_classes'] = len(x['classes'])
    V.notes['dfa_sizes'] = [len(d['acc']) for d in x['dfas']]

    env = {'RESOLVER_TABLES': path}
    # (1) complete product automaton: strings of every length
    r1 = run_tlc('Resolver', 'Resolver_product.cfg', env=env, timeout=1800)
    V.add_tlc(r1, 'Resolver product automaton (all strings of all lengths)')
    if not r1.complete and not r1.violated:
        raise MachineryError('product exploration did not complete')
    V.exhaustive = True
    # (2) every word up to a length bound over the number/boolean alphabet
    cfg2 = 'Resolver_words_quick.cfg' if tier == 'quick' else \
        'Resolver_words_thorough.cfg'
    r2 = run_tlc('Resolver', cfg2, env=env, timeout=7200)
    V.add_tlc(r2, 'Resolver all words up to the length bound (%s)' % cfg2)
    cases = r1.cases + r2.cases
    if len(cases) < 100 and not (r1.violated or r2.violated):
        raise MachineryError('TLC exported too few states: %d' % len(cases))
    # model-level verdict, evaluated by TLC in every state
    ood = [c for c in cases if not c['dom']]
    cases = [c for c in cases if c['dom']]
    V.out_of_domain = len(ood)
    parts = pool_map(_chunk, cases)
    shown = 0
    for c, (res, n) in zip(cases, parts):
        if not c['ok'] and not any(k == 'resolve' for k, _, _ in res):
            raise MachineryError('TLC says loader tag # reference tag but '
                                 'the replay saw no difference: %r' % (c,))
        V.replayed += 1
        V.evaluations += n
        V.nontrivial.add((c['loader'], c['ref'], c['rf'],
                          tuple(c['word'][:1]) if c['word'] else ()))
        for kind, detail, s in res:
            V.violation({'case': c, 'string': s}, detail,
                        finding=classify(c, kind, detail, s))
        if c['word'] and shown < 4 and c['ref'] in ('float', 'bool'):
            V.sample({'word_classes': c['word'],
                      'string': words_of(c, x, 1)[0],
                      'loader_tag': c['loader'], 'reference_tag': c['ref']})
            shown += 1
    # (3) random longer strings, verdict from the reference automata run in
    #     Python over the same extracted tables is NOT used: the oracle for
    #     these is the TLC-explored product state they end in.
    bykey = {}
    for c in r1.cases:
        bykey[json.dumps(c['word'])] = c
    V.notes['product_states'] = r1.distinct
    return V.finish(
        'states of the product automaton (complete) and all words up to the '
        'length bound over the number/boolean alphabet; each concretised with '
        'class representatives and run through Loader.resolve and load(); '
        'distinct = distinct (loader tag, reference tag, reference float '
        'state, first class) combinations')
