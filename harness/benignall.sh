#!/bin/sh
# benignall.sh [checks...]: every benign variant against the given checks
# (default: all 18); prints one line per (variant, check); exit 1 if any
# check alarms
cd "$(dirname "$0")/.."
CHECKS="$*"; [ -n "$CHECKS" ] || CHECKS="C01 C02 C03 C04 C05 C06 C07 C08 C09 C10 C11 C12 C13 C14 C15 C16 C17 C18"
bad=0
for p in benign/B*.diff; do
  out=$(harness/benigntest.sh $p $CHECKS 2>&1 | grep -v "^WARNING")
  echo "$out"
  echo "$out" | grep -q " rc=[12]" && bad=1
done
exit $bad
