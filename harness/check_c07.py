"""C07 - JSON dumps are valid JSON with the same data under every formatting
option.

Model: spec/JsonEmitter.tla (the pushdown emitter, one action per branch of
emit_json, the PyYAML serializer as environment).  TLC checks the stack/indent
invariants and `OutputIsTheTree` (an independent token-level JSON parser gives
back exactly the tree the serializer walked) for every event sequence within
the bounds, and exports every complete document with the predicted token
stream.  Binding (A): each exported behaviour is replayed through the real
dumps_json / dump_json with concrete scalars and compared token for token.
Binding (B): emit_json is wrapped, the recorded per-event emitter state is
validated by TLC against the same actions (spec/Trace_Json.tla).
"""
import datetime
import io
import common
import json
import math
import os
import re
import tempfile

from common import (BUILD, MachineryError, Verdict, pool_map, run_tlc,
                    use_repo, SEED)

NUM_RE = re.compile(r'-?(0|[1-9][0-9]*)(\.[0-9]+)?([eE][-+]?[0-9]+)?\Z')

# concrete string classes (the TLA+ spec only knows the atom "a_str")
STR_POOL = [
    ('ascii', 'abc'),
    ('quote_backslash', 'q"uo\\te/'),
    ('control', 'a\x01\n\t\x1f\x7fz'),
    ('latin1', 'caf\xe9 \xa0'),
    ('bmp', '中文 €  '),
    ('nonbmp', 'x\U0001F600y'),
    ('lone_surrogate', 'a\ud800b'),
    ('empty', ''),
    ('looks_int', '123'),
    ('looks_null', 'null'),
    ('looks_bool', 'true'),
    ('looks_float', '1e5'),
    ('looks_json', '{"a": [1, 2]}'),
    ('spaces', '  lead and trail  '),
    ('colon', 'a: b, c'),
    ('nonbmp2', '\U0001D11E\U0001F600'),
    ('linesep', 'a\u2028b\u2029c\x85d'),
    ('del', 'x\x7fy\x00z'),
]
PRINTABLE_BMP = {'ascii', 'quote_backslash', 'latin1', 'empty', 'looks_int',
                 'looks_null', 'looks_bool', 'looks_float', 'looks_json',
                 'spaces', 'colon'}
ENCODABLE = {n for n, _ in STR_POOL} - {'lone_surrogate'}
INT_POOL = [0, -5, 7, 12345678901234567890, -2 ** 63]
FLOAT_POOL = [1.5, -0.0, 1e+20, 1e-07, 5e-324, 1.7976931348623157e308,
              123456.789, -2.5e-5, 100.0, 1.05e+20, 2.0000000000000004e-16,
              -1.0625e-05, 1.0e16, 3.0000000000000004e+22, 0.1 + 0.2]
BOOL_POOL = [True, False]
TS_POOL = [datetime.date(2020, 1, 2),
           datetime.datetime(2021, 12, 31, 23, 59, 58),
           datetime.datetime(1999, 1, 1, 0, 0, 0, 250000),
           datetime.date(1, 1, 1)]
KEY_POOLS = [
    {'k1': 'k1', 'k2': 'k2', 'k3': 'k3', 'k4': 'k4'},
    {'k1': 'a b', 'k2': '\xe9"\\', 'k3': 'z', 'k4': 'Z'},
    {'k1': '', 'k2': '中', 'k3': ' ', 'k4': '\xa0'},
    {'k1': '1', 'k2': 'true', 'k3': 'null', 'k4': '1.5'},
    {'k1': 'x\U0001F600', 'k2': 'a\x01', 'k3': '\ud800', 'k4': '\n'},
    {'k1': 'zz', 'k2': 'aa', 'k3': 'Mm', 'k4': '0'},      # not in sorted order
]


def lex(text):
    toks = []
    i, n = 0, len(text)
    while i < n:
        c = text[i]
        if c in '[]{},':
            toks.append((c,))
            i += 1
        elif c == ':':
            if text[i + 1:i + 2] == ' ':
                toks.append(('KV', 1))
                i += 2
            else:
                toks.append(('KV', 0))
                i += 1
        elif c == '\n':
            j = i + 1
            while j < n and text[j] == ' ':
                j += 1
            toks.append(('NL', j - i - 1))
            i = j
        elif c == '"':
            j = i + 1
            while j < n and text[j] != '"':
                j += 2 if text[j] == '\\' else 1
            toks.append(('LIT', text[i:j + 1]))
            i = j + 1
        elif c in ' \t\r':
            toks.append(('WS', c))
            i += 1
        else:
            j = i
            while j < n and text[j] not in ',]}:\n \t\r[{"':
                j += 1
            if j == i:
                toks.append(('BAD', c))
                j = i + 1
            else:
                toks.append(('LIT', text[i:j]))
            i = j
    return toks


def iso_forms(v):
    if isinstance(v, datetime.datetime):
        return {v.isoformat(' '), v.isoformat()}
    return {v.isoformat()}


def lit_ok(kind, value, lit, ensure_ascii):
    """Is `lit` a correct JSON rendering of `value`?  Returns error or None."""
    if kind == 'str' or kind == 'ts':
        if len(lit) < 2 or lit[0] != '"' or lit[-1] != '"':
            return 'not a JSON string literal: %r' % lit
        try:
            back = json.loads(lit)       # strict: control chars rejected
        except ValueError as e:
            return 'invalid JSON string literal %r: %s' % (lit, e)
        if kind == 'ts':
            if back not in iso_forms(value):
                return 'timestamp %r rendered as %r' % (value, back)
        elif back != value:
            return 'string %r rendered as %r' % (value, back)
        if ensure_ascii and not lit.isascii():
            return 'non-ASCII output with ensure_ascii=True: %r' % lit
        if not ensure_ascii and kind == 'str':
            for ch in value:
                if ord(ch) > 0x7f and ch not in lit:
                    return 'non-ASCII %r escaped with ensure_ascii=False' % ch
        return None
    if kind == 'null':
        return None if lit == 'null' else 'null rendered as %r' % lit
    if kind == 'bool':
        exp = 'true' if value else 'false'
        return None if lit == exp else 'bool %r rendered as %r' % (value, lit)
    if kind in ('int', 'float'):
        if not NUM_RE.match(lit):
            return 'not an RFC 8259 number: %r' % lit
        back = json.loads(lit)
        if kind == 'int':
            if type(back) is not int or back != value:
                return 'int %r rendered as %r' % (value, lit)
        else:
            if float(back) != value or (
                    math.copysign(1, float(back)) != math.copysign(1, value)):
                return 'float %r rendered as %r' % (value, lit)
        return None
    return 'unknown kind %r' % kind


def concretise(evs, variant):
    """Assign concrete Python scalars to the scalar events of a behaviour.
    Returns (list of (kind, value, strclass)), in event order."""
    keys = KEY_POOLS[variant % len(KEY_POOLS)]
    vals = []
    counters = {'str': variant, 'int': variant, 'float': variant,
                'bool': variant, 'ts': variant}
    for e in evs:
        if e[0] != 'scalar':
            continue
        kind, atom = e[1], e[2]
        if atom in keys:
            vals.append(('str', keys[atom], 'key:' + atom))
            continue
        if kind == 'null':
            vals.append(('null', None, None))
            continue
        pool = {'str': STR_POOL, 'int': INT_POOL, 'float': FLOAT_POOL,
                'bool': BOOL_POOL, 'ts': TS_POOL}[kind]
        i = counters[kind] % len(pool)
        counters[kind] += 1 + variant // len(pool)
        if kind == 'str':
            vals.append(('str', pool[i][1], pool[i][0]))
        elif kind == 'ts':
            # a fresh object per occurrence: the same date object twice would
            # be a shared object (an alias), which is outside the domain
            vals.append((kind, pool[i].replace(), None))
        else:
            vals.append((kind, pool[i], None))
    return vals


def build(evs, vals):
    """Python object + JSON projection of the event tree."""
    it = iter(vals)
    pos = [1]                       # evs[0] is docstart

    def node():
        e = evs[pos[0]]
        pos[0] += 1
        if e[0] == 'scalar':
            kind, v, _ = next(it)
            if kind == 'ts':
                return v, None      # projection filled by caller
            return v, v
        if e[0] == 'seqstart':
            o, p = [], []
            while evs[pos[0]][0] != 'seqend':
                a, b = node2()
                o.append(a)
                p.append(b)
            pos[0] += 1
            return o, p
        if e[0] == 'mapstart':
            o, p = {}, {}
            while evs[pos[0]][0] != 'mapend':
                k, _ = node2()
                a, b = node2()
                o[k] = a
                p[k] = b
            pos[0] += 1
            return o, p
        raise MachineryError('bad event %r' % (e,))

    def node2():
        a, b = node()
        if isinstance(a, (datetime.date, datetime.datetime)):
            b = ('TS', a)
        return a, b
    return node2()


def proj_equal(p, j):
    """Compare the JSON projection (with ('TS', v) leaves) with parsed JSON."""
    if isinstance(p, tuple) and len(p) == 2 and p[0] == 'TS':
        return isinstance(j, str) and j in iso_forms(p[1])
    if isinstance(p, list):
        return (isinstance(j, list) and len(p) == len(j)
                and all(proj_equal(a, b) for a, b in zip(p, j)))
    if isinstance(p, dict):
        return (isinstance(j, dict) and list(p.keys()) == list(j.keys())
                and all(proj_equal(p[k], j[k]) for k in p))
    if isinstance(p, float):
        return (isinstance(j, float) and p == j
                and math.copysign(1, p) == math.copysign(1, j))
    return type(p) is type(j) and p == j


def _bad_const(name):
    raise ValueError('non-standard JSON constant ' + name)


_state = {}


def _fns():
    if not _state:
        y = use_repo()
        _state['dumps'] = y.dumps_json_function()
        _state['dump'] = y.dump_json_function()
        _state['load'] = y.load_function()
        _state['tmp'] = tempfile.mkdtemp(prefix='c07-', dir=BUILD)
    return _state


def check_text(case, vals, obj, proj, text, req, ea, how):
    """All claims of C07 about one produced text.  Returns list of errors."""
    errs = []
    pred = case['out']
    toks = lex(text)
    # (1) token-for-token agreement with the specification's output
    lits = iter(vals)
    if len(toks) != len(pred):
        errs.append('%s: token count %d, spec predicts %d: %r' % (
            how, len(toks), len(pred), text[:200]))
    else:
        for t, p in zip(toks, pred):
            if p[0] == 'SC':
                kind, v, _ = next(lits)
                if t[0] != 'LIT':
                    errs.append('%s: expected scalar, got %r' % (how, t))
                    break
                e = lit_ok(kind, v, t[1], ea)
                if e:
                    errs.append('%s: %s' % (how, e))
                    break
            elif tuple(p) != t:
                errs.append('%s: token %r where spec predicts %r in %r' % (
                    how, t, p, text[:200]))
                break
    # (2) strict RFC 8259 and equal to the JSON projection
    try:
        back = json.loads(text, parse_constant=_bad_const)
        if not proj_equal(proj, back):
            errs.append('%s: JSON content %r differs from projection of %r'
                        % (how, back, obj))
    except ValueError as e:
        errs.append('%s: not strict JSON (%s): %r' % (how, e, text[:200]))
    # (3) defaults: ASCII only, no whitespace outside strings
    if ea and not text.isascii():
        errs.append('%s: non-ASCII text with ensure_ascii=True' % how)
    if req == -1:
        outside = ''.join(t[1] if t[0] == 'WS' else ('\n' if t[0] == 'NL' else
                          (' ' if t == ('KV', 1) else '')) for t in toks)
        if outside:
            errs.append('%s: whitespace outside strings with indent=None: %r'
                        % (how, text[:200]))
    return errs


def replay_case(case, variants, do_sink):
    st = _fns()
    out = []
    req = case['req']
    evs = case['evs']
    n_eval = 0
    for variant in variants:
        vals = concretise(evs, variant)
        obj, proj = build(evs, vals)
        classes = {c for _, _, c in vals if c and not c.startswith('key:')}
        keystr = [v for _, v, c in vals if c and c.startswith('key:')]
        for ea in (True, False):
            kw = {}
            if req != -1:
                kw['indent'] = req
            elif variant % 2:
                kw['indent'] = None
            if not ea or variant % 2:
                kw['ensure_ascii'] = ea
            n_eval += 1
            try:
                text = st['dumps'](obj, **kw)
            except Exception as e:  # noqa
                out.append(('dumps_json raised %s: %s for %r %r' % (
                    type(e).__name__, e, obj, kw), variant, ea))
                continue
            errs = check_text(case, vals, obj, proj, text, req, ea,
                              'dumps_json(%r)' % (kw,))
            # (4) reload with the matching load function
            has_ts = any(k == 'ts' for k, _, _ in vals)
            printable = classes <= PRINTABLE_BMP and all(
                s.isprintable() and all(ord(c) < 0x10000 for c in s)
                for s in keystr)
            if not errs and printable and not has_ts:
                try:
                    back = st['load'](text)
                    if not proj_equal(proj, back):
                        errs.append('reload of %r gives %r, expected %r' % (
                            text[:200], back, obj))
                except Exception as e:  # noqa
                    errs.append('reload of %r raised %s: %s' % (
                        text[:200], type(e).__name__, e))
            # (5) the dump_json variant writes the same (sample of sinks)
            encodable = classes <= ENCODABLE and all(
                '\ud800' not in s for s in keystr)
            if do_sink and encodable and not errs:
                n_eval += 1
                try:
                    sio = io.StringIO()
                    st['dump'](obj, sio, **kw)
                    if sio.getvalue() != text:
                        errs.append('dump_json to stream wrote %r, dumps_json '
                                    'returned %r' % (sio.getvalue()[:200],
                                                     text[:200]))
                    path = os.path.join(st['tmp'], 'o%d.json' % os.getpid())
                    st['dump'](obj, path, **kw)
                    with open(path, 'r') as f:
                        got = f.read()
                    if got != text:
                        errs.append('dump_json to file wrote %r, dumps_json '
                                    'returned %r' % (got[:200], text[:200]))
                except Exception as e:  # noqa
                    errs.append('dump_json raised %s: %s' % (
                        type(e).__name__, e))
            for e in errs:
                out.append((e, variant, ea))
    return out, n_eval


def failing_dump():
    """A JSON dump that is abandoned half-way (a shared object is an alias,
    which JSON cannot express).  It must not influence later dumps."""
    st = _fns()
    shared = [1, 2]
    for obj, kw in (({'a': {'b': [shared, shared]}}, {}),
                    ([[0], {'k': shared, 'l': [shared]}], {'indent': 2})):
        try:
            st['dumps'](obj, **kw)
        except RuntimeError:
            pass
        except Exception:  # noqa
            pass


def _chunk(args):
    cases, variants, sink_every = args
    res = []
    for i, c in enumerate(cases):
        if i % 50 == 0:
            failing_dump()
        # rotate through the scalar pools so that every string / number class
        # meets every emitter behaviour somewhere in the run
        h = (hash(json.dumps(c['evs'])) + c['req']) % 997
        vs = [(v + h + 7 * k) % 240 for k, v in enumerate(variants)]
        errs, n = replay_case(c, vs, i % sink_every == 0)
        res.append((errs, n))
    return res


def _json_proj(v):
    """JSON projection of plain data: dates as ISO strings."""
    if isinstance(v, (datetime.date, datetime.datetime)):
        return ('TS', v)
    if isinstance(v, list):
        return [_json_proj(x) for x in v]
    if isinstance(v, dict):
        return {k: _json_proj(x) for k, x in v.items()}
    return v


def _cm_chunk(cases):
    import dumpcheck
    import loadreplay
    out = []
    for c in cases:
        b = loadreplay.built(c['model'])
        y = loadreplay.ctx()['yatiml']
        obj, _ = dumpcheck.build_objects(b, c['oh'], c['oroot'])
        proj = _json_proj(dumpcheck.plain_projection(c['dumped']))
        errs = []
        if not isinstance(proj, (list, dict)) and isinstance(proj, float) \
                and not math.isfinite(proj):
            out.append(errs)
            continue
        dumps = y.dumps_json_function(*b.registered)
        for kw in ({}, {'indent': 2, 'ensure_ascii': False}):
            try:
                text = dumps(obj, **kw)
            except Exception as e:  # noqa
                errs.append('dumps_json(%s, %s) raised %s: %s' % (
                    json.dumps(c['value'])[:200], kw, type(e).__name__, e))
                continue
            try:
                back = json.loads(text, parse_constant=_bad_const)
            except ValueError as e:
                errs.append('dumps_json(%s, %s) = %r is not strict JSON: %s'
                            % (json.dumps(c['value'])[:200], kw, text[:200], e))
                continue
            if not proj_equal(proj, back):
                errs.append('dumps_json(%s, %s) = %r: content %r differs from '
                            'the projection %r' % (
                                json.dumps(c['value'])[:200], kw, text[:200],
                                back, proj))
        out.append(errs)
    return out


def _finite(v):
    if v[0] == 'float':
        return v[1] not in ('inf', '-inf', 'nan')
    if v[0] in ('list', 'dict', 'odict'):
        return all(_finite(x) for x in v[1] if isinstance(x, list))
    if v[0] == 'obj':
        return all(_finite(x) for x in v[2] if isinstance(x, list))
    return True


def _strkeys(c):
    return all(o['k'] != 'dict' or all(
        c['oh'][k - 1]['k'] in ('str', 'strlike', 'enum')
        for k in (o['f'] if isinstance(o['f'], list) else [])[0::2])
        for o in c['oh'])


def class_model_json(V, tier):
    import dumpcheck
    import loadcheck
    stats, cases = loadcheck.tlc_cases(
        'MC_RoundTrip_q.cfg' if tier == 'quick' else 'MC_RoundTrip_t.cfg',
        module='MC_RoundTrip', extra_files=('RoundTrip.tla',),
        dimplicit=dumpcheck.live_dimplicit())
    loadcheck.add_stats(V, stats)
    cases = [c for c in cases if c['dex'] == '' and isinstance(c['oh'], list)
             and c['nreuse'] == 0 and _finite(c['value']) and _strkeys(c)]
    res = pool_map(_cm_chunk, cases)
    for c, errs in zip(cases, res):
        V.replayed += 1
        V.evaluations += 2
        for e in errs:
            V.violation({'case': {'cm': c}, 'variant': 0}, e)
    V.notes['class_model_values'] = len(cases)


def run(tier, replay=None):
    V = Verdict('C07', tier)
    V.assumptions = [
        'PyYAML serializer emits the well-nested event grammar modelled as '
        'the environment of JsonEmitter (string keys, no aliases: the '
        "property's tree-shaped, string-keyed domain)",
        'character-level escaping is json.dumps\' and is checked on concrete '
        'string classes by the harness, not in TLA+ (opaque strings)',
    ]
    if replay:
        with open(replay) as f:
            rec = json.load(f)
        case = rec['case']
        if 'cm' in case['case']:
            import dumpcheck
            import loadcheck
            loadcheck.write_models(dumpcheck.live_dimplicit())
            errs = _cm_chunk([case['case']['cm']])[0]
            for e in errs:
                print(e)
            return 1 if errs else 0
        errs, _ = replay_case(case['case'], [case['variant']], True)
        for e in errs:
            print(e)
        return 1 if errs else 0

    cfg = ('MC_JsonEmitter_quick.cfg' if tier == 'quick'
           else 'MC_JsonEmitter_thorough.cfg')
    r = run_tlc('MC_JsonEmitter', cfg, coverage=True,
                timeout=600 if tier == 'quick' else 7200)
    V.add_tlc(r, 'JsonEmitter exhaustive ' + cfg)
    dead = [a for a, (d, t) in r.coverage.items()
            if a.startswith('Step') and t == 0]
    if dead:
        raise MachineryError('vacuous model: actions never taken: %s' % dead)
    V.exhaustive = r.complete
    cases = r.cases
    if not cases:
        raise MachineryError('TLC exported no terminal states')
    nvar = 3 if tier == 'quick' else 15
    variants = [(SEED + i) % 60 for i in range(nvar)]
    import random
    rnd = random.Random(SEED)
    rnd.shuffle(cases)
    from common import chunked, NCPU
    chunks = [(c, variants, 7 if tier == 'quick' else 3)
              for c in chunked(cases, NCPU * 4)]
    import multiprocessing
    parts = common.fork_map(_chunk, chunks)
    k = 0
    for (cs, _, _), part in zip(chunks, parts):
        for c, (errs, n) in zip(cs, part):
            V.replayed += 1
            V.evaluations += n
            shape = json.dumps([e[:2] for e in c['evs']]) + str(c['req'])
            V.nontrivial.add(shape)
            for e, variant, ea in errs:
                V.violation({'case': c, 'variant': variant,
                             'ensure_ascii': ea}, e)
            if k < 3:
                V.sample({'indent': c['req'], 'events': c['evs'],
                          'predicted_tokens': c['out']})
                k += 1
    # generated class-model values (RoundTrip exploration) through dumps_json
    class_model_json(V, tier)
    # binding (B): recorded emitter traces validated by TLC
    try:
        import trace_json
        trace_json.validate(V, tier)
    except ImportError:
        V.notes['trace_validation'] = 'not built'
    V.notes['string_classes'] = [n for n, _ in STR_POOL]
    V.notes['variants_per_behaviour'] = nvar
    import shutil
    if _state.get('tmp'):
        shutil.rmtree(_state['tmp'], ignore_errors=True)
    return V.finish(
        'every complete serializer event sequence within the TLC bounds '
        '(depth, width, events, indent choices) x ensure_ascii x %d scalar '
        'concretisations; distinct = distinct (event shape, indent) pairs; '
        'all have at least one node so none is trivial' % nvar)
