"""Runs the repository's documentation examples (docs/examples/*.py) under the
observation shim and the load recorder, like verif_pytest_plugin does for the
test suite; merges what was recorded into the same output files.

usage: run_examples.py <repo>   (env: VERIF_LOAD_TRACE_OUT, VERIF_TRACE_OUT)"""
import contextlib
import glob
import io
import json
import os
import runpy
import sys


def run_all(repo):
    ran, failed = 0, {}
    for path in sorted(glob.glob(os.path.join(repo, 'docs', 'examples',
                                              '*.py'))):
        out = io.StringIO()
        try:
            with contextlib.redirect_stdout(out), \
                    contextlib.redirect_stderr(out):
                runpy.run_path(path, run_name='__main__')
            ran += 1
        except BaseException as e:      # type_error.py fails on purpose
            failed[os.path.basename(path)] = type(e).__name__
    return ran, failed


def dump_mode(repo, do):
    import trace_dump
    rec = trace_dump.DumpRecorder()
    rec.install()
    ran, failed = run_all(repo)
    rec.uninstall()
    d = {'records': [], 'skipped': {}}
    if os.path.exists(do):
        with open(do) as f:
            d = json.load(f)
    d['records'].extend(json.loads(json.dumps(rec.records, default=repr)))
    for k, v in rec.skipped.items():
        d['skipped'][k] = d['skipped'].get(k, 0) + v
    d['examples'] = {'ran': ran, 'raised': failed, 'dumps': len(rec.records)}
    with open(do, 'w') as f:
        json.dump(d, f)
    print('examples: %d ran, %d dumps recorded' % (ran, len(rec.records)))


def main():
    repo = sys.argv[1]
    import shim
    import yatiml
    import check_c07
    import trace_load
    do = os.environ.get('VERIF_DUMP_TRACE_OUT')
    if do:
        return dump_mode(repo, do)
    jt = shim.JsonTracer(yatiml, check_c07.lex)
    jt.install()
    rec = trace_load.LoadRecorder()
    rec.install()
    ran, failed = 0, {}
    for path in sorted(glob.glob(os.path.join(repo, 'docs', 'examples',
                                              '*.py'))):
        out = io.StringIO()
        try:
            with contextlib.redirect_stdout(out), \
                    contextlib.redirect_stderr(out):
                runpy.run_path(path, run_name='__main__')
            ran += 1
        except BaseException as e:      # type_error.py fails on purpose
            failed[os.path.basename(path)] = type(e).__name__
    rec.uninstall()
    jt.uninstall()
    lo = os.environ.get('VERIF_LOAD_TRACE_OUT')
    if lo:
        d = {'records': [], 'skipped': {}}
        if os.path.exists(lo):
            with open(lo) as f:
                d = json.load(f)
        for r in rec.records:
            r['source'] = 'docs/examples'
        d['records'].extend(json.loads(json.dumps(rec.records, default=repr)))
        for k, v in rec.skipped.items():
            d['skipped'][k] = d['skipped'].get(k, 0) + v
        d['examples'] = {'ran': ran, 'raised': failed,
                         'loads': len(rec.records)}
        with open(lo, 'w') as f:
            json.dump(d, f)
    jo = os.environ.get('VERIF_TRACE_OUT')
    if jo:
        d = {'broken': None, 'traces': []}
        if os.path.exists(jo):
            with open(jo) as f:
                d = json.load(f)
        d['traces'].extend(jt.drain())
        d['broken'] = d.get('broken') or jt.broken
        with open(jo, 'w') as f:
            json.dump(d, f)
    print('examples: %d ran, %d raised, %d loads recorded' % (
        ran, len(failed), len(rec.records)))


if __name__ == '__main__':
    main()
