"""C08 - load-pipeline exploration (model level + replay) and text-level
fuzzing of the real load functions."""
import loadcheck


def run(tier, replay=None):
    return loadcheck.run('C08', tier, replay, extra=loadcheck.c08_fuzz)
