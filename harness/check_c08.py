"""C08 - decided with the load-pipeline specification; see loadcheck.py."""
import loadcheck


def run(tier, replay=None):
    return loadcheck.run('C08', tier, replay)
