#!/bin/sh
# collect_seed.sh <prefix> <offset> C15 [seedtest args]: copy a sub-agent's seeds
# from <prefix>-C15/_seed/{1,2} to /verif/seeded/C15-{1+offset,2+offset} and test them
PRE=$1; OFF=$2; P=$3; shift 3
for n in 1 2; do
  src=$PRE-$P/_seed/$n
  [ -f $src/patch.diff ] || continue
  dst=/verif/seeded/$P-$((n+OFF))
  mkdir -p $dst
  cp $src/patch.diff $src/demo.py $src/meta.json $dst/; sed -i "s#$PRE-$P#/tmp#g" $dst/demo.py
  /verif/harness/seedtest.py $dst "$@" > $dst/seedtest.log 2>&1
  /venv/bin/python - <<PY
import json
r=json.load(open('$dst/result.json'))
print('$P-$((n+OFF)) valid=%s tests=%s demo_clean=%s demo_patched=%s caught_by=%s' % (r['valid_seed'], r.get('tests_passed'), r.get('demo_clean_rc'), r.get('demo_patched_rc'), r['caught_by']), {c:(v['rc'],v['violations']) for c,v in r['checks'].items()})
PY
done
