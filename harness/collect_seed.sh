#!/bin/sh
# collect_seed.sh C15 : copy the sub-agent's seeds into /verif/seeded and test them
P=$1; shift
for n in 1 2; do
  src=/tmp/wt-$P/_seed/$n
  [ -f $src/patch.diff ] || continue
  dst=/verif/seeded/$P-$n
  mkdir -p $dst
  cp $src/patch.diff $src/demo.py $src/meta.json $dst/; sed -i "s#/tmp/wt-$P#/tmp#g" $dst/demo.py
  /verif/harness/seedtest.py $dst "$@" > $dst/seedtest.log 2>&1
  /venv/bin/python - <<PY
import json
r=json.load(open('$dst/result.json'))
print('$P-$n valid=%s tests=%s demo_clean=%s demo_patched=%s caught_by=%s' % (r['valid_seed'], r.get('tests_passed'), r.get('demo_clean_rc'), r.get('demo_patched_rc'), r['caught_by']), {c:(v['rc'],v['violations']) for c,v in r['checks'].items()})
PY
done
