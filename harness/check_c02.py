"""C02 - load-pipeline exploration (model level + replay) and trace
validation of every load the repository's own test suite performs."""
import loadcheck
import trace_load


def run(tier, replay=None):
    return loadcheck.run('C02', tier, replay, extra=trace_load.validate)
