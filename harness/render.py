"""Abstract documents (node heaps of the specification) <-> YAML text.

A heap is a list of nodes {k: 's'|'q'|'m', t: tag, v: value, c: [child ids]}
(1-based ids, mapping children flattened key, value, ...).  Aliases are
repeated ids.  `render` produces text in several styles; `check_faithful`
composes the text with plain PyYAML and verifies that it denotes the same
graph (a mismatch is a harness error, never a verdict).
"""
import yaml

from common import MachineryError

CORE = 'tag:yaml.org,2002:'
STYLES = ('flow', 'block', 'quoted', 'canonical')


def realtag(t):
    return t if t.startswith('!') else CORE + t


def tagtext(t):
    return t if t.startswith('!') else '!!' + t


def dq(s):
    out = ['"']
    for ch in s:
        if ch == '"':
            out.append('\\"')
        elif ch == '\\':
            out.append('\\\\')
        elif ch == '\n':
            out.append('\\n')
        elif ch == '\t':
            out.append('\\t')
        elif ord(ch) < 32 or ord(ch) == 127:
            out.append('\\x%02x' % ord(ch))
        else:
            out.append(ch)
    out.append('"')
    return ''.join(out)


class Renderer:
    def __init__(self, heap, implicit, style='flow'):
        self.h = heap
        self.implicit = implicit        # val -> reference implicit tag
        self.style = style
        self.counts = {}
        self.anchored = {}
        self.line_of = {}               # node id -> 1-based line (block style)

    def node(self, i):
        return self.h[i - 1]

    def count(self, i, seen):
        self.counts[i] = self.counts.get(i, 0) + 1
        if i in seen:
            return
        seen.add(i)
        for c in self.node(i)['c']:
            self.count(c, seen)

    def prefix(self, i):
        """anchor / alias handling; returns (alias_text or None, props)."""
        if self.counts.get(i, 0) > 1:
            if i in self.anchored:
                return '*a%d' % i, ''
            self.anchored[i] = True
            return None, '&a%d ' % i
        return None, ''

    def scalar(self, n):
        tag, val = n['t'], n['v']
        imp = self.implicit.get(val, 'str')
        plain_ok = (val != '' and val == val.strip()
                    and not any(ch in val for ch in ':#,[]{}&*!|>\'"%@`\n')
                    and val[0] not in '-?' and val not in ('<<', '='))
        if self.style == 'canonical':
            return '%s %s' % (tagtext(tag), dq(val))
        if tag == imp and plain_ok and self.style != 'quoted':
            return val
        if tag == 'str':
            return dq(val)
        if tag == imp and plain_ok:
            return val                  # quoting would change the tag
        return '%s %s' % (tagtext(tag), dq(val))

    def coll_tag(self, n):
        default = 'seq' if n['k'] == 'q' else 'map'
        if n['t'] == default and self.style != 'canonical':
            return ''
        return tagtext(n['t']) + ' '

    # ---- flow --------------------------------------------------------------
    def flow(self, i):
        alias, props = self.prefix(i)
        if alias:
            return alias
        n = self.node(i)
        if n['k'] == 's':
            return props + self.scalar(n)
        if n['k'] == 'q':
            return '%s%s[%s]' % (props, self.coll_tag(n), ', '.join(
                self.flow(c) for c in n['c']))
        items = []
        for j in range(0, len(n['c']), 2):
            k = self.flow(n['c'][j])
            v = self.flow(n['c'][j + 1])
            if self.node(n['c'][j])['k'] == 's':
                items.append('%s: %s' % (k, v))
            else:
                items.append('? %s : %s' % (k, v))
        return '%s%s{%s}' % (props, self.coll_tag(n), ', '.join(items))

    # ---- block: one node per line -------------------------------------------
    def block(self, i, ind, lines, lead):
        """Emit node i.  `lead` is the text that starts its first line
        (indentation plus "- " or "key: "); children are indented by ind."""
        alias, props = self.prefix(i)
        n = self.node(i)
        if alias:
            lines.append(lead + alias)
            return
        if n['k'] == 's':
            lines.append(lead + props + self.scalar(n))
            return
        head = (props + self.coll_tag(n)).strip()
        if not n['c']:
            lines.append(lead + (head + ' ' if head else '') +
                         ('[]' if n['k'] == 'q' else '{}'))
            return
        first = (lead + head).rstrip()
        if first.strip():
            lines.append(first)
        pad = ' ' * ind
        if n['k'] == 'q':
            for c in n['c']:
                self.block(c, ind + 2, lines, pad + '- ')
        else:
            for j in range(0, len(n['c']), 2):
                kid = n['c'][j]
                kn = self.node(kid)
                if kn['k'] == 's':
                    kalias, kprops = self.prefix(kid)
                    ktext = kalias or (kprops + self.scalar(kn))
                    if kalias:
                        ktext += ' '
                    vlead = pad + ktext + ': '
                else:
                    lines.append(pad + '? ' + self.flow(kid))
                    vlead = pad + ': '
                self.block(n['c'][j + 1], ind + 2, lines, vlead)

    def flow_inner(self, i):
        return self.flow(i)

    def render(self, root):
        if root == 0:
            return ''
        self.count(root, set())
        if self.style in ('flow', 'quoted', 'canonical'):
            text = self.flow(root) + '\n'
            if self.style == 'canonical':
                text = '--- ' + text
            return text
        lines = []
        self.block(root, 0, lines, '')
        return '\n'.join(lines) + '\n'


def render(doc, implicit, style='flow'):
    r = Renderer(doc['h'], implicit, style)
    text = r.render(doc['r'])
    return text, r


def check_faithful(doc, text, implicit):
    """Compose with plain PyYAML and compare with the abstract graph."""
    if doc['r'] == 0:
        if text.strip():
            raise MachineryError('empty document rendered as %r' % text)
        return {}
    try:
        root = yaml.compose(text, Loader=yaml.SafeLoader)
    except yaml.YAMLError as e:
        raise MachineryError('rendered document does not parse: %r: %s' % (
            text, e))
    h = doc['h']
    ids = {}
    lines = {}

    def walk(node, i, depth):
        if depth > 50:
            return
        n = h[i - 1]
        if id(node) in ids:
            if ids[id(node)] != i:
                raise MachineryError('sharing differs in %r' % text)
            return
        ids[id(node)] = i
        lines[i] = node.start_mark.line + 1
        kind = {yaml.ScalarNode: 's', yaml.SequenceNode: 'q',
                yaml.MappingNode: 'm'}[type(node)]
        if kind != n['k']:
            raise MachineryError('node kind differs in %r' % text)
        if kind == 's':
            if node.value != n['v']:
                raise MachineryError('scalar value %r vs %r in %r' % (
                    node.value, n['v'], text))
            plain = node.style is None
            if not plain and node.tag != realtag(n['t']):
                raise MachineryError('scalar tag %r vs %r in %r' % (
                    node.tag, n['t'], text))
        elif kind == 'q':
            if node.tag != realtag(n['t']):
                raise MachineryError('tag %r vs %r in %r' % (
                    node.tag, n['t'], text))
            if len(node.value) != len(n['c']):
                raise MachineryError('length differs in %r' % text)
            for c, ci in zip(node.value, n['c']):
                walk(c, ci, depth + 1)
        else:
            if node.tag != realtag(n['t']):
                raise MachineryError('tag %r vs %r in %r' % (
                    node.tag, n['t'], text))
            if 2 * len(node.value) != len(n['c']):
                raise MachineryError('length differs in %r' % text)
            for j, (k, v) in enumerate(node.value):
                walk(k, n['c'][2 * j], depth + 1)
                walk(v, n['c'][2 * j + 1], depth + 1)
    walk(root, doc['r'], 0)
    return lines


def expand(doc, limit=200):
    """Alias-free copy of a document (None if cyclic or too large)."""
    h = doc['h']
    out = []

    def cp(i, path):
        if i in path or len(out) > limit:
            raise RecursionError
        n = h[i - 1]
        me = {'k': n['k'], 't': n['t'], 'v': n['v'], 'c': []}
        out.append(me)
        idx = len(out)
        me['c'] = [cp(c, path | {i}) for c in n['c']]
        return idx
    if doc['r'] == 0:
        return {'h': [], 'r': 0}
    try:
        r = cp(doc['r'], frozenset())
    except RecursionError:
        return None
    return {'h': out, 'r': r}
