"""Observation shim (binding B): wraps implementation entry points from the
outside and records one event per specification action at the call's return.
Nothing is installed unless YATIML_VERIF=1 (the guard named in
MANIFEST.hooks); no source file of /repo is touched."""
import os

import yaml
from yaml.events import (AliasEvent, DocumentEndEvent, DocumentStartEvent,
                         MappingEndEvent, MappingStartEvent, ScalarEvent,
                         SequenceEndEvent, SequenceStartEvent,
                         StreamEndEvent, StreamStartEvent)

PRE = 'tag:yaml.org,2002:'
KIND = {'str': 'str', 'null': 'null', 'bool': 'bool', 'int': 'int',
        'float': 'float', 'timestamp': 'ts'}
EVNAME = [(StreamStartEvent, 'streamstart'), (DocumentStartEvent, 'docstart'),
          (ScalarEvent, 'scalar'), (SequenceStartEvent, 'seqstart'),
          (SequenceEndEvent, 'seqend'), (MappingStartEvent, 'mapstart'),
          (MappingEndEvent, 'mapend'), (DocumentEndEvent, 'docend'),
          (StreamEndEvent, 'streamend'), (AliasEvent, 'alias')]
STNAME = {'NONE': 'NONE', 'SEQUENCE': 'SEQ', 'SEQUENCE_FIRST': 'SEQ_FIRST',
          'MAPPING_KEY': 'KEY', 'MAPPING_KEY_FIRST': 'KEY_FIRST',
          'MAPPING_VALUE': 'VALUE'}


def enabled():
    return os.environ.get('YATIML_VERIF') == '1'


class _Tee:
    def __init__(self, real, chunks):
        self._real = real
        self._chunks = chunks

    def write(self, s):
        self._chunks.append(s)
        return self._real.write(s)

    def __getattr__(self, name):
        return getattr(self._real, name)


class JsonTracer:
    """Records emit_json: one trace per Dumper instance."""

    def __init__(self, yatiml, lex):
        self.traces = []
        self.open = {}
        self.broken = None      # set when the private state is not observable
        self.lex = lex
        self.cls = yatiml.dumper.Dumper
        self.orig = None

    def install(self):
        if not enabled() or self.orig is not None:
            return
        tracer = self
        self.orig = orig = self.cls.emit_json

        def emit_json(dumper, event):
            chunks = []
            real = dumper.stream
            dumper.stream = _Tee(real, chunks)
            err = None
            try:
                return orig(dumper, event)
            except BaseException as e:
                err = type(e).__name__
                raise
            finally:
                dumper.stream = real
                tracer.record(dumper, event, ''.join(chunks), err)
        self.cls.emit_json = emit_json

    def uninstall(self):
        if self.orig is not None:
            self.cls.emit_json = self.orig
            self.orig = None

    def record(self, dumper, event, chunk, err):
        if self.broken:
            return
        try:
            self._record(dumper, event, chunk, err)
        except AttributeError as e:
            # a refactoring renamed the private emitter state: this layer of
            # observation is gone; verdicts then rest on the public-API replay
            self.broken = str(e)
            self.traces = []
            self.open = {}

    def _record(self, dumper, event, chunk, err):
        name = next((n for c, n in EVNAME if isinstance(event, c)), 'other')
        tr = self.open.get(id(dumper))
        if tr is not None and name == 'streamstart' and tr['events']:
            # a new Dumper at the address of an abandoned one (its dump
            # failed before the stream ended and it was garbage collected):
            # the old trace ends here as an abandoned dump
            self.traces.append(tr)
            del self.open[id(dumper)]
            tr = None
        if tr is None:
            req = dumper._requested_indent
            tr = {'req': -1 if req is None else req,
                  'best': dumper.best_indent, 'events': []}
            self.open[id(dumper)] = tr
        rec = {'ev': name, 'kind': '',
               'st': [STNAME.get(s.name, s.name) for s in dumper._json_state],
               'ind': dumper._cur_indent, 'toks': []}
        if name == 'scalar':
            t = event.tag or ''
            t = t[len(PRE):] if t.startswith(PRE) else t
            rec['kind'] = KIND.get(t, 'other:' + t)
        for tok in self.lex(chunk):
            if tok[0] == 'LIT':
                rec['toks'].append(['SC', rec['kind'] or '?'])
            elif tok[0] in ('WS', 'BAD'):
                rec['toks'].append(['BAD', tok[1]])
            else:
                rec['toks'].append(list(tok))
        if err:
            rec['ev'] = 'raised:' + err
        tr['events'].append(rec)
        if name == 'streamend' or err:
            self.traces.append(tr)
            del self.open[id(dumper)]

    def drain(self):
        out = self.traces + list(self.open.values())
        self.traces = []
        self.open = {}
        return out
