#!/venv/bin/python
"""Regenerates /verif/MANIFEST.json from the table below (single source)."""
import json
import os

HERE = os.path.dirname(os.path.dirname(os.path.abspath(__file__)))

CHECKS = {
    'C07': dict(
        engine='JsonEmitter',
        technique='TLA+ model of the JSON pushdown emitter checked '
                  'exhaustively by TLC; every terminal behaviour replayed '
                  'into dumps_json/dump_json (spec->code) and recorded '
                  'emit_json traces validated by TLC (code->spec)',
        text='TLC explores every serializer event sequence within the bounds '
             'for every indent mode and checks, in every state, that the '
             'emitter stack mirrors the nesting, the indent is depth*best, '
             'the output is a well-nested prefix, and at document end that an '
             'independent token-level JSON parser returns exactly the tree '
             'walked. Each complete behaviour is then executed on the real '
             'dumps_json/dump_json with concrete scalar classes and compared '
             'token for token, plus strict json.loads, ASCII/whitespace '
             'claims and reload.',
        note='Trusted: PyYAML serializer grammar as modelled; json.dumps '
             'escaping checked only on the concrete string classes of the '
             'harness; TLC bounds (depth/width/events) stated in evidence.',
        design='5/C07'),
    'C09': dict(
        engine='Resolver',
        technique='live resolver regexes translated to DFAs and read by a '
                  'TLA+ product-automaton spec with hand-written YAML 1.2 '
                  'reference automata; TLC explores the complete product '
                  '(strings of every length); every state replayed end to end',
        text='TLC explores the complete (finite) product of the live loader '
             'table automata and the reference YAML 1.2 float/bool automata, '
             'so LoaderTag = RefTag is decided for all strings of all '
             'lengths, and additionally for every word up to a length bound '
             'over the number/boolean alphabet. Each explored state is '
             'concretised and executed through Loader.resolve and load(), '
             'comparing tag, Python type and float value.',
        note='Trusted: re._parser, the regex->DFA translator (cross-checked '
             'against pattern.match on every run), PyYAML Resolver.resolve '
             'semantics as transcribed; reference for non-float/bool tags is '
             'PyYAML\'s pristine table.',
        design='5/C09'),
}

LOAD_NOTE = ('Trusted: PyYAML composer and SafeConstructor as modelled (scalar '
             'constructor table taken from PyYAML itself); user hooks drawn '
             'from the catalogue\'s effect vocabulary; documents bounded by '
             'node occurrences per class model; atoms are abstract '
             'representatives concretised by the renderer. Class models: the '
             'hand-written families of harness/catalogue.py plus twelve '
             'machine-generated hierarchies (fixed seeds).')
LOAD_TECH = ('TLA+ state machine of compose/process/construct over a mutable '
             'node graph (YatimlLoad) + declarative reference (LoadRef), '
             'explored exhaustively by TLC within per-model bounds; every '
             'terminal behaviour replayed into load_function (spec->code)')


def load_check(text, design):
    return dict(engine='YatimlLoad', technique=LOAD_TECH, text=text,
                note=LOAD_NOTE, design=design)


CHECKS.update({
    'C01': load_check(
        'TLC evaluates TypeSafe (result conforms to the document type all the '
        'way down) and CtorArgsConform (every constructor call made, also in '
        'loads that fail later, received conforming arguments) in every '
        'terminal state of the pipeline model, for every catalogue class model '
        '(incl. permissive recognisers and corrupting savorize hooks) and '
        'every document within the bound, incl. the empty and aliased ones. '
        'Each behaviour is executed on the real load function and the '
        'returned object and the kwargs logged by the generated __init__ are '
        're-checked by an independent Python conformance function.', '5/C01'),
    'C02': load_check(
        'Two independent definitions of loading - the operational pipeline '
        'and the declarative reference (order-free, alias-free, by-name) - '
        'are proved equal by TLC on every document within the bound for the '
        'auto-recognised class models; the real load function must then '
        'reproduce accept/reject, RecognitionError and the exact value '
        '(constructor kwargs, defaults, ordered extras, mapping order) on '
        'every one of those behaviours.  Code->spec: every load the '
        'repository\'s own test suite performs over a hook-free class model '
        '(688) is recorded with the class model extracted from the live '
        'Loader class and validated by TLC (Trace_Load.tla).', '5/C02'),
    'C03': load_check(
        'The reference chooses classes from SETS (most derived matching '
        'registered concrete classes, or the class named by a tag), so '
        'agreement of the pipeline with it for every document is order '
        'independence at model level; the replay loads every behaviour under '
        'reversed/rotated registration order and reversed Union member order '
        'and demands the one predicted outcome.', '5/C03'),
    'C04': load_check(
        'CtorArgsConform/TypeSafe at model level over documents with tags '
        'injected at every node (class tags, unknown tags, !!python/*, core '
        'tags); the replay compares the __init__ call log (also of failing '
        'loads) with the type-checked calls of the specification, re-checks '
        'plain data below Any/untyped/extra positions and runs under an audit '
        'hook with a canary module that nothing may import or call.', '5/C04'),
    'C08': load_check(
        'OnlyDocumentedErrors (every failing branch of the pipeline model '
        'ends in RecognitionError or a YAML error) over all documents within '
        'the bound incl. duplicate keys, non-string keys, explicit tags on '
        'every node, invalid scalars for explicit core tags, aliases and '
        'cycles, raising hooks/constructors; every behaviour executed and the '
        'type of the escaping exception checked; plus random behaviours '
        'beyond the bound (TLC simulation) and a text-level fuzz layer (token '
        'soup, mutated renderings, arbitrary unicode).',
        '5/C08'),
    'C10': load_check(
        'The hook/constructor history variable of the pipeline model '
        '(savorize chains ancestor-first between recognition and the '
        'constructor call) is compared entry by entry with the call trace '
        'logged by the generated classes (defining class and cls argument), '
        'for success and failing loads.', '5/C10'),
    'C13': load_check(
        'KeyOrderIrrelevant (the reference is invariant under reversing every '
        'mapping, values compared with mappings as sets) checked by TLC; every '
        'behaviour is rendered in flow, block, quoted and canonical style, '
        'with reversed keys, under List/Sequence/MutableSequence and '
        'Dict/Mapping/MutableMapping flavours and with an unrelated class '
        'registered, and all renderings must give the single predicted '
        'outcome.', '5/C13'),
    'C17': load_check(
        'CitesSomething / CitesInsideDocument at model level (every failing '
        'recognition branch carries cited nodes); every failing behaviour is '
        'rendered one node per line and the real message is parsed for '
        'positions, which must exist and lie inside the document; strong '
        'claim on single-point corruptions of valid documents.', '5/C17'),
    'C18': load_check(
        'Aliases are second references to one mutable node in the pipeline '
        'model; TLC checks pipeline(doc) = reference(expanded doc) for every '
        'sharing pattern within the bound, incl. cycles; the replay loads the '
        'aliased and the expanded rendering and demands equal outcomes and '
        'an error (not RecursionError) for cycles.', '5/C18'),
})

DUMP_TECH = ('TLA+ state machine RoundTrip (object-graph generation with '
             'sharing, Represent with PyYAML\'s registry, sweeten chain, '
             'recomposition through dumper/loader resolver tables, then the '
             'load pipeline) explored exhaustively by TLC; every terminal '
             'behaviour replayed through dumps / plain PyYAML / load')
DUMP_NOTE = ('Trusted: PyYAML representer/serializer as modelled; emitter and '
             'scanner character-level behaviour exercised on the concrete '
             'atom pool only; the dumper\'s implicit tags are read from the '
             'live Dumper table; object graphs bounded per model.')
CHECKS.update({
    'C05': dict(engine='RoundTrip', technique=DUMP_TECH, note=DUMP_NOTE,
                design='5/C05',
                text='TLC checks RoundTripHolds (load(Recompose(Dump(v))) = v '
                'with defaults filled in) for every value of every catalogue '
                'type for which the model is unambiguous, incl. adversarial '
                'string atoms, non-finite floats, dates, paths, enums, '
                'string-like keys, extras, default-value sweetening, inverse '
                'sweeten/savorize pairs and shared objects; each value is '
                'built as a real object graph, dumped and loaded back and '
                'compared structurally.  The resolver part (what the dumper '
                'writes plain must read back as a string) is decided for all '
                'strings by the Resolver product automaton (C09 machinery).'),
    'C06': dict(engine='RoundTrip', technique=DUMP_TECH, note=DUMP_NOTE,
                design='5/C06',
                text='TagFree and ProjectionFaithful (the node graph, aliases '
                'expanded, equals the sharing-free representation with the '
                'sweeten chain applied at every reference) and the frame '
                'property DumpIsPure are checked by TLC; the replay parses '
                'the real text with plain PyYAML (one document, no tag '
                'tokens, data equal to the predicted projection), compares a '
                'deep identity-aware snapshot of the object before/after, '
                'dumps twice, into a stream and with a dump function created '
                'with the classes in the reverse order; sweeten call order compared with the history '
                'variable. The dumps the repository\'s own tests and '
                'documentation examples perform are recorded and validated by '
                'TLC against Represent on class models extracted from the '
                'live Dumper (Trace_Dump).'),
})

CHECKS.update({
    'C11': dict(engine='Registry', design='5/C11',
        technique='TLA+ state machine of function creation / calls over '
                  'PyYAML\'s copy-on-write class registries, all histories '
                  'explored by TLC; each history replayed in one process with '
                  'registry projection after every step and fresh-interpreter '
                  'reference results; concurrent stress for calls marked par',
        text='TLC checks BaseClassesUntouched, FunctionsImmutable and '
             'Isolation over every history of create/call/probe operations '
             '(different and same-named class sets, valid and invalid '
             'arguments). Each exported history is executed for real; after '
             'every operation the harness projects which class owns which '
             'table, the added tags/representers, _registered_classes, '
             'fingerprints of all PyYAML loader/dumper/resolver tables, '
             'yaml.safe_load/safe_dump probe outputs and vars() of the user '
             'classes and compares them with the specification state; call '
             'results are compared with the same call in a fresh interpreter. '
             'LoadThreads.tla enumerates all interleavings of concurrent '
             'loads over the shared Constructor cell (CallsIsolated); the racy '
             'schedule TLC finds is forced on the real code with events; for '
             'every ordered pair of load functions made from the same '
             'classes for different document types a complete call of one '
             'runs in a second thread while the other reads its stream.',
        note='Trusted: the fresh-interpreter result as the meaning of a call; '
             'thread interleavings are CPython\'s (stress with a 1 microsecond '
             'switch interval), not enumerated by TLC.'),
    'C12': dict(engine='SourceSink', design='5/C12',
        technique='TLA+ model of the source/sink dispatch with file system and '
                  'handles as state (TLC: all operation sequences); replay '
                  'instantiates it with behaviours exported by the load, '
                  'round-trip and JSON-emitter specifications over all kinds',
        text='TLC checks NoHandleLeak, SourcesAgree, SinksAgree and '
             'FileHoldsTheText on all operation sequences up to the bound. The '
             'model is thin by nature (the property is an equivalence across a '
             'dispatch); the weight is in the binding: each sequence is run '
             'with documents/values/options taken from the TLC explorations of '
             'the other specifications, through str, Path, text file, '
             'StringIO, BytesIO (UTF-8 and UTF-16) sources and file name, '
             'Path, StringIO, open file sinks and a stream that already holds '
             'text, with every Path.open handle '
             'tracked (closed on success and on error).',
        note='Load/Dumps are uninterpreted in this module; encoding is the '
             'locale\'s; a sample of the exported sequences is replayed.'),
    'C14': dict(engine='NodeMap', design='5/C14',
        technique='TLA+ ordered-map / typed-scalar state machine (NodeMap) and '
                  'RemoveDefaults, explored by TLC exhaustively and in '
                  'simulation mode; every history replayed on real yatiml.Node '
                  'objects; get_value checked on the witness spellings of the '
                  'Resolver product automaton',
        text='TLC checks KeysDistinct, OrderPreserved, NewKeysAppend and '
             'SetThenGet over all operation histories up to the bound and '
             'generates random histories of length 12; every return value and '
             'the wrapped node after every call are compared with the '
             'specification. RemoveDefaults enumerates all (signature default, '
             '_yatiml_defaults override, value) triples over the scalar kinds; '
             'get_value() is compared with PyYAML\'s constructors on every '
             'spelling class the resolver product automaton distinguishes.',
        note='Cross-kind numerically equal (default, value) pairs (1 / True / '
             '1.0) are don\'t-care; the text of null scalars is not compared.'),
    'C15': dict(engine='Seasoning', design='5/C15',
        technique='TLA+ operators for the four structural transforms written '
                  'from the docstrings; TLC checks the inverse laws / no-op / '
                  'error claims over the whole input universe and exports the '
                  'predicted result of each transform for replay on real nodes',
        text='SeqMapSeqInverse, IndexMapIndexInverse (up to the position of '
             'the key attribute, under the stated side condition), '
             'NoOpWhenNotApplicable and ErrorOnlyForStrictDuplicates are '
             'checked by TLC on every node of the universe x value attribute '
             'x strict; the real Node methods must produce the predicted tree '
             '(or SeasoningError without modifying the node). Dash/underscore '
             'key renaming is character-level and checked exhaustively over '
             'short keys by the harness, as are two structure laws on the '
             'real node graph (a transform of a tree gives a tree; explicit '
             'item tags survive an inverse pair).',
        note='Inputs outside the documented domain (items without the key '
             'attribute, non-string key values) are generated, counted, not '
             'judged.'),
    'C16': dict(engine='Require', design='5/C16',
        technique='TLA+ predicates for the six require_* helpers, typed '
                  'require_attribute defined through the declarative '
                  'recognition reference; TLC enumerates all nodes within the '
                  'bound and exports every verdict; replay on real UnknownNode',
        text='For every node of up to the bound for five class models TLC '
             'evaluates each helper for every attribute name, every type of '
             'the model and every scalar value; the real helper must raise '
             'RecognitionError exactly when the predicate is false, raise '
             'nothing else, and leave the node (tags, values, children, '
             'sharing) unchanged.',
        note='Typed require_attribute relies on LoadRef.Cand, itself checked '
             'against the pipeline (C02).'),
})

NOT_YET = 'check not built yet (work in progress; see DESIGN.md section 5)'


def main():
    props = [json.loads(line)['id']
             for line in open(os.path.join(HERE, 'properties.jsonl'))]
    checks = []
    for pid in props:
        if pid not in CHECKS:
            continue
        c = CHECKS[pid]
        checks.append({
            'property_id': pid,
            'quick_cmd': './check %s --tier quick' % pid,
            'thorough_cmd': './check %s --tier thorough' % pid,
            'evidence_file': 'evidence/%s.json' % pid,
            'replay_cmd_template': './check %s --replay {path}' % pid,
            'engine': c['engine'],
            'level_claimed': {'category': c.get('level', 'model_checking'),
                              'text': c['text'],
                              'design_ref': c['design']},
            'level_note': c['note'],
            'technique': c['technique'],
        })
    engines = {}
    for pid, c in CHECKS.items():
        engines.setdefault(c['engine'], []).append(pid)
    m = {
        'version': 1,
        'setup_cmd': 'cd /verif && ./setup.sh',
        'hooks': {
            'guard': 'YATIML_VERIF',
            'enable': 'YATIML_VERIF=1 ./check <ID> (observation wrappers are '
                      'installed from outside by /verif/harness; no source '
                      'hooks are compiled into /repo)',
            'baseline_off_cmd': 'cd /repo && /venv/bin/python -m pytest -q '
                                '-p no:cacheprovider --no-cov',
            'source_commits': [],
            'add_only': True,
        },
        'engines': [{'name': e, 'path': 'spec/%s.tla' % e,
                     'serves_properties': sorted(p),
                     'kind_free_text': 'TLA+ specification checked with TLC, '
                     'bound to the code by replay / trace validation'}
                    for e, p in sorted(engines.items())],
        'checks': checks,
        'not_applicable': [{'property_id': p, 'reason': NOT_YET}
                           for p in props if p not in CHECKS],
        'notes': 'All checks: ./check <ID> --tier quick|thorough. Exit 2 = '
                 'machinery failure (never a verdict).',
    }
    with open(os.path.join(HERE, 'MANIFEST.json'), 'w') as f:
        json.dump(m, f, indent=1)
        f.write('\n')


if __name__ == '__main__':
    main()
