#!/venv/bin/python
"""Regenerates /verif/MANIFEST.json from the table below (single source)."""
import json
import os

HERE = os.path.dirname(os.path.dirname(os.path.abspath(__file__)))

CHECKS = {
    'C07': dict(
        engine='JsonEmitter',
        technique='TLA+ model of the JSON pushdown emitter checked '
                  'exhaustively by TLC; every terminal behaviour replayed '
                  'into dumps_json/dump_json (spec->code) and recorded '
                  'emit_json traces validated by TLC (code->spec)',
        text='TLC explores every serializer event sequence within the bounds '
             'for every indent mode and checks, in every state, that the '
             'emitter stack mirrors the nesting, the indent is depth*best, '
             'the output is a well-nested prefix, and at document end that an '
             'independent token-level JSON parser returns exactly the tree '
             'walked. Each complete behaviour is then executed on the real '
             'dumps_json/dump_json with concrete scalar classes and compared '
             'token for token, plus strict json.loads, ASCII/whitespace '
             'claims and reload.',
        note='Trusted: PyYAML serializer grammar as modelled; json.dumps '
             'escaping checked only on the concrete string classes of the '
             'harness; TLC bounds (depth/width/events) stated in evidence.',
        design='5/C07'),
    'C09': dict(
        engine='Resolver',
        technique='live resolver regexes translated to DFAs and read by a '
                  'TLA+ product-automaton spec with hand-written YAML 1.2 '
                  'reference automata; TLC explores the complete product '
                  '(strings of every length); every state replayed end to end',
        text='TLC explores the complete (finite) product of the live loader '
             'table automata and the reference YAML 1.2 float/bool automata, '
             'so LoaderTag = RefTag is decided for all strings of all '
             'lengths, and additionally for every word up to a length bound '
             'over the number/boolean alphabet. Each explored state is '
             'concretised and executed through Loader.resolve and load(), '
             'comparing tag, Python type and float value.',
        note='Trusted: re._parser, the regex->DFA translator (cross-checked '
             'against pattern.match on every run), PyYAML Resolver.resolve '
             'semantics as transcribed; reference for non-float/bool tags is '
             'PyYAML\'s pristine table.',
        design='5/C09'),
}

NOT_YET = 'check not built yet (work in progress; see DESIGN.md section 5)'


def main():
    props = [json.loads(line)['id']
             for line in open(os.path.join(HERE, 'properties.jsonl'))]
    checks = []
    for pid in props:
        if pid not in CHECKS:
            continue
        c = CHECKS[pid]
        checks.append({
            'property_id': pid,
            'quick_cmd': './check %s --tier quick' % pid,
            'thorough_cmd': './check %s --tier thorough' % pid,
            'evidence_file': 'evidence/%s.json' % pid,
            'replay_cmd_template': './check %s --replay {path}' % pid,
            'engine': c['engine'],
            'level_claimed': {'category': c.get('level', 'model_checking'),
                              'text': c['text'],
                              'design_ref': c['design']},
            'level_note': c['note'],
            'technique': c['technique'],
        })
    engines = {}
    for pid, c in CHECKS.items():
        engines.setdefault(c['engine'], []).append(pid)
    m = {
        'version': 1,
        'setup_cmd': 'cd /verif && ./setup.sh',
        'hooks': {
            'guard': 'YATIML_VERIF',
            'enable': 'YATIML_VERIF=1 ./check <ID> (observation wrappers are '
                      'installed from outside by /verif/harness; no source '
                      'hooks are compiled into /repo)',
            'baseline_off_cmd': 'cd /repo && /venv/bin/python -m pytest -q '
                                '-p no:cacheprovider --no-cov',
            'source_commits': [],
            'add_only': True,
        },
        'engines': [{'name': e, 'path': 'spec/%s.tla' % e,
                     'serves_properties': sorted(p),
                     'kind_free_text': 'TLA+ specification checked with TLC, '
                     'bound to the code by replay / trace validation'}
                    for e, p in sorted(engines.items())],
        'checks': checks,
        'not_applicable': [{'property_id': p, 'reason': NOT_YET}
                           for p in props if p not in CHECKS],
        'notes': 'All checks: ./check <ID> --tier quick|thorough. Exit 2 = '
                 'machinery failure (never a verdict).',
    }
    with open(os.path.join(HERE, 'MANIFEST.json'), 'w') as f:
        json.dump(m, f, indent=1)
        f.write('\n')


if __name__ == '__main__':
    main()
