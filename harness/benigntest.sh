#!/bin/sh
# benigntest.sh <patch> <checks...>: the checks must stay at exit 0 on a benign variant
cd "$(dirname "$0")/.."
P=$(readlink -f "$1"); shift
D=$(mktemp -d /tmp/benign-XXXX)
git -C /repo archive HEAD | tar -x -C $D
(cd $D && git apply "$P") || { echo "patch does not apply"; rm -rf $D; exit 2; }
T=$(cd $D && PYTHONPATH=$D /venv/bin/python -m pytest -q -p no:cacheprovider --no-cov 2>&1 | tail -1)
echo "$(basename $P): repo tests: $T"
for c in "$@"; do
  VERIF_REPO=$D VERIF_BUILD=$D/_b VERIF_EVIDENCE=$D/_b/ev ./check $c --tier quick > $D/out.txt 2>&1
  rc=$?
  echo "$(basename $P) $c rc=$rc $(grep -c '^VIOLATION' $D/out.txt) violations $(grep -m1 -A1 -E '^VIOLATION|MACHINERY' $D/out.txt | tail -1 | cut -c1-200)"
done
rm -rf $D
