#!/bin/sh
# seedpar.sh <lanes> <seed[:checks]>...: seed self-tests in parallel lanes
# (each lane = one harness/seedtest.py run against its own scratch copy)
cd "$(dirname "$0")/.."
L=$1; shift
printf '%s\n' "$@" | xargs -P "$L" -I{} sh -c '
  item={}; s=${item%%:*}; c=${item#*:}; [ "$c" = "$item" ] && c=""
  ./harness/seedtest.py seeded/$s ${c:+--checks $c} > seeded/$s/seedtest.log 2>&1
  /venv/bin/python -c "
import json,sys
r=json.load(open(\"seeded/$s/result.json\"))
print(\"$s valid=%s tests=%s demo=%s/%s caught_by=%s\" % (r.get(\"valid_seed\"), r.get(\"tests_passed\"), r.get(\"demo_clean_rc\"), r.get(\"demo_patched_rc\"), r.get(\"caught_by\")), {c:(v[\"rc\"],v[\"violations\"],v[\"wall_s\"]) for c,v in r[\"checks\"].items()})
"'
