"""C15 - structural seasoning transforms are inverse pairs and no-ops when
not applicable.

spec/Seasoning.tla defines the four transforms as operators on node trees
(from the docstrings) and states the inverse laws, the no-op cases and
"SeasoningError only for duplicates in strict mode"; TLC checks them on the
whole input universe and exports, per input and argument choice, the
predicted result of each transform; the replay runs the real Node methods on
real nodes and compares (up to the position of the key attribute)."""
import itertools
import json

import yaml

from common import MachineryError, Verdict, pool_map, run_tlc, use_repo

PRE = 'tag:yaml.org,2002:'
_y = {}


def Y():
    if not _y:
        _y['y'] = use_repo()
    return _y['y']


def build(t):
    k = t[0]
    if k == 's':
        return yaml.ScalarNode(PRE + t[1], t[2])
    if k == 'q':
        return yaml.SequenceNode(PRE + 'seq', [build(x) for x in
                                               (t[1] if isinstance(t[1], list)
                                                else [])])
    kv = t[1] if isinstance(t[1], list) else []
    return yaml.MappingNode(PRE + 'map', [
        (yaml.ScalarNode(PRE + 'str', kv[i]), build(kv[i + 1]))
        for i in range(0, len(kv), 2)])


def proj(n):
    if isinstance(n, yaml.ScalarNode):
        t = n.tag
        return ['s', t[len(PRE):] if t.startswith(PRE) else t, n.value]
    if isinstance(n, yaml.SequenceNode):
        return ['q', [proj(x) for x in n.value]]
    out = []
    for k, v in n.value:
        out.append(k.value if isinstance(k, yaml.ScalarNode) else proj(k))
        out.append(proj(v))
    return ['m', out]


def norm(t):
    """JSON from TLC: empty tuples may arrive as {} or []."""
    if isinstance(t, dict):
        return []
    if isinstance(t, list):
        return [norm(x) for x in t]
    return t


def key_first(t, key):
    """canonical position of the key attribute inside each item"""
    if not isinstance(t, list) or not t:
        return t
    if t[0] == 'm':
        kv = t[1]
        pairs = [(kv[i], key_first(kv[i + 1], key))
                 for i in range(0, len(kv), 2)]
        front = [p for p in pairs if p[0] == key]
        rest = [p for p in pairs if p[0] != key]
        return ['m', [x for p in front + rest for x in p]] + t[2:]
    if t[0] == 'q':
        return ['q', [key_first(x, key) for x in t[1]]] + t[2:]
    return t


def apply(case, which):
    y = Y()
    node = y.Node(build(norm(case['node'])))
    val = case['val'] or None
    try:
        if which == 's2m':
            node.seq_attribute_to_map('items', case['key'], val,
                                      case['strict'])
        elif which == 'm2s':
            node.map_attribute_to_seq('items', case['key'], val)
        elif which == 'i2m':
            node.index_attribute_to_map('items', case['key'], val)
        else:
            node.map_attribute_to_index('items', case['key'], val)
    except y.SeasoningError:
        return ['ERR'], proj(node.yaml_node)
    except Exception as e:  # noqa
        return ['EXC', type(e).__name__, str(e)[:100]], proj(node.yaml_node)
    return proj(node.yaml_node), None


NAMES = {'s2m': 'seq_attribute_to_map', 'm2s': 'map_attribute_to_seq',
         'i2m': 'index_attribute_to_map', 'm2i': 'map_attribute_to_index'}


def check_case(case):
    errs = []
    n = 0
    inp = norm(case['node'])
    for which in ('s2m', 'm2s', 'i2m', 'm2i'):
        if which != 's2m' and case['strict']:
            continue            # strict only matters for seq_attribute_to_map
        exp = norm(case[which])
        if exp == ['OOD']:
            continue
        n += 1
        got, after = apply(case, which)
        args = "('items', %r, %r%s)" % (case['key'], case['val'] or None,
                                        ', strict=%s' % case['strict']
                                        if which == 's2m' else '')
        if got[:1] == ['ERR'] or got[:1] == ['EXC']:
            if exp != ['ERR'] or got[0] == 'EXC':
                errs.append('%s%s on %s raised %s; documented result %s' % (
                    NAMES[which], args, json.dumps(inp), got,
                    json.dumps(exp)))
            elif key_first(after, case['key']) != key_first(inp, case['key']):
                errs.append('%s%s raised SeasoningError but modified the node '
                            '%s into %s' % (NAMES[which], args,
                                            json.dumps(inp),
                                            json.dumps(after)))
            continue
        if exp == ['ERR']:
            errs.append('%s%s on %s returned %s; SeasoningError expected '
                        '(duplicate keys, strict)' % (
                            NAMES[which], args, json.dumps(inp),
                            json.dumps(got)))
            continue
        if key_first(got, case['key']) != key_first(exp, case['key']):
            errs.append('%s%s on %s gives %s; documented result %s' % (
                NAMES[which], args, json.dumps(inp), json.dumps(got),
                json.dumps(exp)))
    return errs, n


def projt(n):
    """like proj, with the tags of collections that are not the default"""
    if isinstance(n, yaml.ScalarNode):
        return proj(n)
    if isinstance(n, yaml.SequenceNode):
        r = ['q', [projt(x) for x in n.value]]
        return r if n.tag == PRE + 'seq' else r + [n.tag]
    out = []
    for k, v in n.value:
        out.append(k.value if isinstance(k, yaml.ScalarNode) else projt(k))
        out.append(projt(v))
    r = ['m', out]
    return r if n.tag == PRE + 'map' else r + [n.tag]


def all_nodes(n, acc):
    acc.append(n)
    if isinstance(n, yaml.SequenceNode):
        for x in n.value:
            all_nodes(x, acc)
    elif isinstance(n, yaml.MappingNode):
        for k, v in n.value:
            all_nodes(k, acc)
            all_nodes(v, acc)
    return acc


def _transform(node, which, case):
    val = case['val'] or None
    if which == 's2m':
        node.seq_attribute_to_map('items', case['key'], val, case['strict'])
    elif which == 'm2s':
        node.map_attribute_to_seq('items', case['key'], val)
    elif which == 'i2m':
        node.index_attribute_to_map('items', case['key'], val)
    else:
        node.map_attribute_to_index('items', case['key'], val)


def _items_of(root):
    for k, v in root.value:
        if isinstance(k, yaml.ScalarNode) and k.value == 'items':
            return v
    return None


def structure_laws(case):
    """Two laws on the real node graph that the data-level comparison cannot
    see: (1) a transform of a tree gives a tree (no node object occurs at two
    places: the loader rewrites nodes in place, so a shared node would couple
    two positions); (2) items written in the long form keep an explicit tag
    through an inverse pair of transforms."""
    y = Y()
    errs = []
    n = 0
    inp = norm(case['node'])
    for which in ('s2m', 'm2s', 'i2m', 'm2i'):
        if which != 's2m' and case['strict']:
            continue
        exp = norm(case[which])
        if exp in (['OOD'], ['ERR']):
            continue
        node = y.Node(build(inp))
        try:
            _transform(node, which, case)
        except Exception:  # noqa  (judged by check_case)
            continue
        n += 1
        nodes = all_nodes(node.yaml_node, [])
        if len({id(x) for x in nodes}) != len(nodes):
            errs.append('%s on the tree %s gives a graph in which one node '
                        'object occurs at two places' % (
                            NAMES[which], json.dumps(inp)))
    for fwd, bwd in (('s2m', 'm2s'), ('i2m', 'm2i')):
        if case['strict'] or norm(case[fwd]) in (['OOD'], ['ERR']):
            continue
        root = build(inp)
        items = _items_of(root)
        if items is None:
            continue
        kids = (items.value if isinstance(items, yaml.SequenceNode) else
                [v for _, v in items.value]
                if isinstance(items, yaml.MappingNode) else [])
        maps = [k for k in kids if isinstance(k, yaml.MappingNode)]
        if not maps:
            continue
        for m in maps:
            m.tag = '!It'
        before = projt(root)
        node = y.Node(root)
        try:
            _transform(node, fwd, case)
            mid = _items_of(node.yaml_node)
            if mid is None or not isinstance(mid, yaml.MappingNode) or any(
                    not isinstance(v, yaml.MappingNode)
                    for _, v in mid.value):
                continue        # an item went to the short form: no claim
            _transform(node, bwd, case)
        except Exception:  # noqa
            continue
        n += 1
        after = node.yaml_node
        if key_first(proj(after), case['key']) != \
                key_first(proj(build(inp)), case['key']):
            continue            # outside the inverse law (judged elsewhere)
        if key_first(projt(after), case['key']) != \
                key_first(before, case['key']):
            errs.append('%s then %s on %s with items tagged !It: the data is '
                        'restored but the tags are not: %s' % (
                            NAMES[fwd], NAMES[bwd], json.dumps(inp),
                            json.dumps(projt(after))))
    return errs, n


def _chunk(cases):
    out = []
    for c in cases:
        e1, n1 = check_case(c)
        e2, n2 = structure_laws(c)
        out.append((e1 + e2, n1 + n2))
    return out


def dash_cases(maxlen):
    keys = []
    for L in range(0, maxlen + 1):
        for w in itertools.product('a_-', repeat=L):
            keys.append(''.join(w))
    return keys


def check_dashes(V, tier):
    """unders_to_dashes_in_keys / dashes_to_unders_in_keys (character level:
    outside TLA+, checked exhaustively over short keys)."""
    y = Y()
    keys = dash_cases(3 if tier == 'quick' else 5)
    for combo in itertools.combinations(keys, 2):
        if V.evaluations % 7:      # sample of pairs, all singletons below
            pass
    n = 0
    for k1 in keys:
        for k2 in (keys if tier != 'quick' else keys[::5]):
            if k1 == k2:
                continue
            n += 1
            for fwd, bwd, ch, to in (('unders_to_dashes_in_keys',
                                      'dashes_to_unders_in_keys', '_', '-'),
                                     ('dashes_to_unders_in_keys',
                                      'unders_to_dashes_in_keys', '-', '_')):
                t = ['m', [k1, ['s', 'int', '1'], k2,
                           ['m', ['in_ner-k', ['s', 'str', 'a_b-c']]]]]
                node = y.Node(build(t))
                getattr(node, fwd)()
                got = proj(node.yaml_node)
                exp = ['m', [k1.replace(ch, to), t[1][1],
                             k2.replace(ch, to), t[1][3]]]
                if got != exp:
                    V.violation({'part': 'dashes', 'case': [fwd, k1, k2]},
                                '%s on keys %r, %r gives %s, expected %s' % (
                                    fwd, k1, k2, json.dumps(got),
                                    json.dumps(exp)))
                # inverse on keys free of the target character
                if to not in k1 and to not in k2:
                    getattr(node, bwd)()
                    if proj(node.yaml_node) != t:
                        V.violation({'part': 'dashes',
                                     'case': [fwd, bwd, k1, k2]},
                                    '%s then %s on keys %r, %r does not '
                                    'restore the node' % (fwd, bwd, k1, k2))
    V.evaluations += 2 * n
    V.notes['dash_under_key_pairs'] = n


def run(tier, replay=None):
    V = Verdict('C15', tier)
    V.assumptions = [
        'input universe: the attribute is a sequence of (mappings | a '
        'scalar), a mapping of (mappings | scalars), a scalar or absent; '
        'items over key/value/other attributes with scalar or mapping values',
        'inputs outside the documented domain (items without the key '
        'attribute, non-string key values, an index item that already has the '
        'key attribute) are generated, counted and not judged',
    ]
    if replay:
        rec = json.load(open(replay))
        errs, _ = check_case(rec['case']['case'])
        errs += structure_laws(rec['case']['case'])[0]
        for e in errs:
            print(e)
        return 1 if errs else 0
    cfg = 'MC_Seasoning_q.cfg' if tier == 'quick' else 'MC_Seasoning_t.cfg'
    r = run_tlc('MC_Seasoning', cfg, timeout=7200)
    V.add_tlc(r, 'Seasoning laws over the input universe ' + cfg)
    if not r.cases and not r.violated:
        raise MachineryError('no Seasoning cases exported')
    res = pool_map(_chunk, r.cases)
    shown = 0
    for c, (errs, n) in zip(r.cases, res):
        V.replayed += 1
        V.evaluations += n
        ood = sum(1 for w in ('s2m', 'm2s', 'i2m', 'm2i')
                  if norm(c[w]) == ['OOD'])
        V.out_of_domain += ood
        if any(norm(c[w]) not in (norm(c['node']), ['OOD'])
               for w in ('s2m', 'm2s', 'i2m', 'm2i')):
            V.nontrivial.add(json.dumps(c, sort_keys=True))
            if shown < 3 and norm(c['s2m']) not in (norm(c['node']), ['OOD'],
                                                   ['ERR']):
                V.sample({'node': c['node'], 'key': c['key'], 'value': c['val'],
                          'seq_attribute_to_map': c['s2m']})
                shown += 1
        for e in errs:
            V.violation({'part': 'transform', 'case': c}, e)
        if not all(c['laws'].values()):
            V.violation({'part': 'law', 'case': c},
                        'model: law violated %s' % c['laws'])
    check_dashes(V, tier)
    V.exhaustive = True
    return V.finish(
        'every node of the input universe x value-attribute choice x strict; '
        'all four transforms per case; distinct non-trivial = cases where at '
        'least one transform changes the node')
