"""C11 - load and dump functions are stateless, isolated, and leave PyYAML
untouched.

spec/Registry.tla: histories of creating load/dump functions over different
(also same-named) class sets and calling them on valid and invalid arguments,
with PyYAML's copy-on-write class-level registries as state.  TLC checks that
no action writes a base class, that functions are immutable and isolated, and
exports every history.  Each history is replayed in ONE process: after every
operation the real registries are projected and compared with the
specification's state, every call result is compared with the result of the
same (kind, classes, argument) in a fresh interpreter, and calls flagged `par`
run concurrently with calls on all other functions."""
import collections
import enum
import io
import json
import os
import pathlib
import subprocess
import sys
import threading

import yaml

from common import (BUILD, NCPU, REPO, SEED, VERIF, MachineryError, Verdict,
                    chunked, run_tlc, use_repo)

_y = {}


def Y():
    if not _y:
        _y['y'] = use_repo()
    return _y['y']


def make_classes():
    class A:
        def __init__(self, x: int) -> None:
            self.x = x

        # class-level state of the user's class: must never be written
        _yatiml_defaults = {}

        @classmethod
        def _yatiml_sweeten(cls, node):
            # visible only where A itself is registered with the dump function
            node.set_attribute('kind', 'base')

        @classmethod
        def _yatiml_savorize(cls, node):
            # visible only where A itself is registered with the load function
            if node.is_mapping() and node.has_attribute('x'):
                x = node.get_attribute('x')
                if x.is_scalar(int):
                    node.set_attribute('x', x.get_value() + 100)
    A1 = A

    class A:    # noqa: a DIFFERENT class with the same name
        def __init__(self, x: str) -> None:
            self.x = x
    A2 = A

    class B:
        def __init__(self, y: int) -> None:
            self.y = y

    class S(A1):
        def __init__(self, x: int, z: int = 0) -> None:
            self.x = x
            self.z = z

        @classmethod
        def _yatiml_sweeten(cls, node):
            # looks up the defaults (signature + inherited _yatiml_defaults)
            node.remove_attributes_with_default_values(cls)
    S1 = S

    class S(A2):    # noqa: same name, other hierarchy
        def __init__(self, x: str, z: int = 0) -> None:
            self.x = x
            self.z = z
    S2 = S

    class E(enum.Enum):
        r = 1
        g = 2
    return {'A1': A1, 'A2': A2, 'B': B, 'E': E, 'S1': S1, 'S2': S2}


LOAD_ARGS = {'x1': 'x: 1\n', 'xabc': 'x: abc\n', 'tagA': '!A {x: 1}\n',
             'y2': 'y: 2\n', 'r': 'r\n', 'bad': '[\n',
             'coll': 'x: [[1], [2, [3]], {a: [4], b: {c: [5]}}]\ny: [[6]]\n',
             'cyc': 'x: 1\ntop: &a [1, {inner: [*a]}]\n'}


def dump_arg(name, cl):
    if name == 'plain':
        return {'a': [1, 'x', None], 'b': 2.5}
    if name == 'objA1':
        return cl['A1'](1)
    if name == 'objA2':
        return cl['A2']('s')
    if name == 'enumr':
        return cl['E'].r
    if name == 'objS1':
        return cl['S1'](3)
    raise MachineryError(name)


def make_fn(kind, cs, cl):
    y = Y()
    classes = [cl[c] for c in cs]
    if kind == 'load':
        if classes:
            return y.load_function(classes[0], *classes[1:])
        return y.load_function()
    return getattr(y, kind + '_function')(*classes)


def abstract(v, cl):
    if isinstance(v, (str, int, float, bool, type(None))):
        return repr(v)
    if isinstance(v, list):
        return [abstract(x, cl) for x in v]
    if isinstance(v, dict):
        return {str(k): abstract(x, cl) for k, x in v.items()}
    for name, c in cl.items():
        if type(v) is c:
            if isinstance(v, enum.Enum):
                return ['enum', name, v.name]
            return ['obj', name, abstract(vars(v), cl)]
    return ['other', type(v).__name__]


def do_call(fn, kind, arg, cl):
    y = Y()
    try:
        if kind == 'load':
            return ['VAL', abstract(fn(LOAD_ARGS[arg]), cl)]
        obj = dump_arg(arg, cl)
        if kind in ('dumps', 'dumps_json'):
            return ['VAL', fn(obj)]
        s = io.StringIO()
        fn(obj, s)
        return ['VAL', s.getvalue()]
    except y.RecognitionError:
        return ['ERR', 'RecognitionError']
    except yaml.YAMLError as e:
        return ['ERR', 'YAMLError:' + type(e).__name__]
    except Exception as e:  # noqa
        return ['ERR', type(e).__name__]


# ---- fresh-interpreter reference -----------------------------------------
def fresh_main(argv):
    kind, cs, arg = argv[0], json.loads(argv[1]), argv[2]
    cl = make_classes()
    fn = make_fn(kind, cs, cl)
    print(json.dumps(do_call(fn, kind, arg, cl)))


def fresh_results(combos):
    env = dict(os.environ)
    env['VERIF_REPO'] = REPO
    env['PYTHONHASHSEED'] = '0'
    env['PYTHONDONTWRITEBYTECODE'] = '1'
    out = {}
    procs = []
    for kind, cs, arg in combos:
        p = subprocess.Popen(
            [sys.executable, os.path.abspath(__file__), '--fresh', kind,
             json.dumps(cs), arg], stdout=subprocess.PIPE,
            stderr=subprocess.PIPE, env=env)
        procs.append(((kind, tuple(cs), arg), p))
        if len(procs) >= NCPU:
            for key, pp in procs:
                o, e = pp.communicate()
                if pp.returncode:
                    raise MachineryError('fresh interpreter failed: %s' %
                                         e.decode()[-500:])
                out[key] = json.loads(o.decode().strip().splitlines()[-1])
            procs = []
    for key, pp in procs:
        o, e = pp.communicate()
        if pp.returncode:
            raise MachineryError('fresh interpreter failed: %s' %
                                 e.decode()[-500:])
        out[key] = json.loads(o.decode().strip().splitlines()[-1])
    return out


# ---- projection of the real registries --------------------------------------
TABLES = ('yaml_constructors', 'yaml_multi_constructors', 'yaml_representers',
          'yaml_multi_representers', 'yaml_implicit_resolvers',
          'yaml_path_resolvers')


def table_print(t):
    if t is None:
        return None
    out = []
    for k, v in t.items():
        if isinstance(v, list):
            out.append((repr(k), tuple((a, getattr(b, 'pattern', repr(b)))
                                       for a, b in v)))
        else:
            out.append((repr(k), id(v)))
    return tuple(sorted(out))


def base_snapshot():
    y = Y()
    import yatiml.loader
    import yatiml.dumper
    snap = {}
    for name, c in (('SafeLoader', yaml.SafeLoader),
                    ('SafeDumper', yaml.SafeDumper),
                    ('yaml.Loader', yaml.Loader), ('yaml.Dumper', yaml.Dumper),
                    ('FullLoader', yaml.FullLoader),
                    ('Resolver', yaml.resolver.Resolver),
                    ('SafeConstructor', yaml.constructor.SafeConstructor),
                    ('SafeRepresenter', yaml.representer.SafeRepresenter),
                    ('Loader', yatiml.loader.Loader),
                    ('Dumper', yatiml.dumper.Dumper)):
        for t in TABLES:
            snap[(name, t)] = (t in vars(c), table_print(getattr(c, t, None)))
    # behaviour probes of plain PyYAML
    probes = ['a: 1\nb: [yes, 1e5, 0x1F, 2001-01-01, ~]\n', '!!python/none x',
              '- 1.5\n- "x"\n', 'x: !A {y: 1}\n']
    for p in probes:
        try:
            snap[('safe_load', p)] = repr(yaml.safe_load(p))
        except Exception as e:  # noqa
            snap[('safe_load', p)] = 'EXC ' + type(e).__name__
    for v in ({'b': 1, 'a': ['yes', '1e5', 1.5, None]},
              collections.OrderedDict(a=1), pathlib.Path('/x'), 'true'):
        try:
            snap[('safe_dump', repr(v))] = yaml.safe_dump(v)
        except Exception as e:  # noqa
            snap[('safe_dump', repr(v))] = 'EXC ' + type(e).__name__
    return snap


def class_vars(cl):
    return {n: (tuple(sorted(vars(c).keys())),
                repr(vars(c).get('_yatiml_defaults')))
            for n, c in cl.items()}


def check_function_tables(fn, kind, cs, spec_own, cl):
    import yatiml.loader
    import yatiml.dumper
    errs = []
    names = {'A1': 'A', 'A2': 'A', 'B': 'B', 'E': 'E', 'S1': 'S', 'S2': 'S',
             '_AnyYAML': '_AnyYAML'}
    cl = dict(cl)
    cl['_AnyYAML'] = yatiml.loader._AnyYAML
    added_spec = set(spec_own['added']) if isinstance(spec_own['added'],
                                                      list) else set()
    if kind == 'load':
        c = fn.loader
        owns = 'yaml_constructors' in vars(c)
        if owns != (spec_own['ctors'] == 'own'):
            errs.append('loader class owns its constructor table: %s' % owns)
        added = set(c.yaml_constructors) - set(
            yatiml.loader.Loader.yaml_constructors)
        exp = {'!Path'} | {'!' + names[x] for x in added_spec if x != '!Path'}
        if added != exp:
            errs.append('constructors added to the loader class: %s, '
                        'specification %s' % (sorted(added), sorted(exp)))
        reg = c._registered_classes
        exp_reg = {'!' + names[x]: cl[x] for x in (cs or ['_AnyYAML'])}
        if reg != exp_reg:
            errs.append('_registered_classes = %r, expected %r' % (reg,
                                                                   exp_reg))
        for t in ('yaml_implicit_resolvers', 'yaml_representers'):
            if t in vars(c):
                errs.append('loader class owns %s' % t)
    else:
        c = fn.dumper
        owns = 'yaml_representers' in vars(c)
        if owns != (spec_own['reprs'] == 'own'):
            errs.append('dumper class owns its representer table: %s, '
                        'specification %s' % (owns, spec_own['reprs']))
        added = set(c.yaml_representers) - set(
            yatiml.dumper.Dumper.yaml_representers)
        exp = {cl[x] for x in added_spec if x in cl}
        if added != exp:
            errs.append('representers added to the dumper class: %s, '
                        'specification %s' % (added, exp))
        for t in ('yaml_implicit_resolvers', 'yaml_constructors'):
            if t in vars(c):
                errs.append('dumper class owns %s' % t)
    return errs


_W = {}


def replay_history(case):
    st = _W
    cl = st['classes']
    ref = st['ref']
    errs = []
    fns = []
    hist = case['hist']
    own = case['own']
    n = 0
    for i, h in enumerate(hist):
        cs = h['classes'] if isinstance(h['classes'], list) else []
        if h['op'] == 'create':
            try:
                fn = make_fn(h['kind'], cs, cl)
            except Exception as e:  # noqa
                errs.append('step %d: creating %s_function%s raised %s' % (
                    i, h['kind'], cs, type(e).__name__))
                break
            fns.append((fn, h['kind'], cs))
            errs += ['step %d (create %s%s): %s' % (i, h['kind'], cs, e)
                     for e in check_function_tables(
                         fn, h['kind'], cs, own['f%d' % len(fns)], cl)]
        elif h['op'] == 'call':
            fn, kind, fcs = fns[h['f'] - 1]
            key = (kind, tuple(fcs), h['arg'])
            if key not in ref:
                raise MachineryError('no reference result for %r' % (key,))
            n += 1
            if h['par']:
                results = []
                stop = threading.Event()

                def noise():
                    k = 0
                    while not stop.is_set() and k < 200:
                        for ofn, okind, ocs in fns:
                            a = 'x1' if okind == 'load' else 'plain'
                            r = do_call(ofn, okind, a, cl)
                            if r != ref.get((okind, tuple(ocs), a), r):
                                results.append(('noise', okind, ocs, a, r))
                        k += 1

                def worker():
                    for _ in range(20):
                        results.append(do_call(fn, kind, h['arg'], cl))
                old = sys.getswitchinterval()
                sys.setswitchinterval(1e-6)
                try:
                    ts = [threading.Thread(target=worker) for _ in range(3)]
                    nt = threading.Thread(target=noise)
                    nt.start()
                    for t in ts:
                        t.start()
                    for t in ts:
                        t.join()
                    stop.set()
                    nt.join()
                finally:
                    sys.setswitchinterval(old)
                bad = [r for r in results if r != ref[key]]
                if bad:
                    errs.append('step %d: concurrent %s%s(%s) gave %s, a '
                                'fresh interpreter gives %s' % (
                                    i, kind, fcs, h['arg'], bad[0], ref[key]))
            else:
                r = do_call(fn, kind, h['arg'], cl)
                if r != ref[key]:
                    errs.append('step %d: %s%s(%s) gave %s after this history,'
                                ' a fresh interpreter gives %s' % (
                                    i, kind, fcs, h['arg'], r, ref[key]))
        # after every operation: base classes, PyYAML behaviour, user classes
        snap = base_snapshot()
        if snap != st['base']:
            diff = [k for k in snap if snap[k] != st['base'].get(k)]
            errs.append('step %d (%s): PyYAML / yatiml base state changed: %s'
                        % (i, h['op'], diff[:4]))
            st['base'] = snap          # report once
        cv = class_vars(cl)
        if cv != st['cvars']:
            errs.append('step %d (%s): user classes were modified: %s' % (
                i, h['op'], {k: set(cv[k]) ^ set(st['cvars'][k])
                             for k in cv if cv[k] != st['cvars'][k]}))
            st['cvars'] = cv
        if errs:
            break
    return errs, n


def forced_race(V):
    """Replays the schedule TLC finds for RaceIsReachable in LoadThreads.tla:
    t1 Enter, t2 Enter, t1 Strip (reads t2's loader), ...  Thread t1 is held
    between `self.__loader = loader` and its use until t2 has stored its own
    loader.  Both results must be the sequential ones; also checks the
    LoaderEquivalence assumption on the real resolver tables."""
    import yatiml.constructors as yc
    y = Y()
    name = '_Constructor__strip_extra_attributes'
    if not hasattr(yc.Constructor, name):
        V.notes['forced_race'] = 'skipped: private method renamed'
        return

    class Inner:
        def __init__(self, v: int) -> None:
            self.v = v

    class Outer:
        def __init__(self, a: Inner, _yatiml_extra=None) -> None:
            self.a = a
            self.extra = _yatiml_extra
    fn = y.load_function(Outer, Inner)
    l1, l2 = fn.loader(''), fn.loader('')
    t1 = table_print(l1.yaml_implicit_resolvers)
    t2 = table_print(l2.yaml_implicit_resolvers)
    if t1 != t2:
        V.violation({'part': 'threads'}, 'two Loader instances of one load '
                    'function have different resolver tables')
    docs = {'A': 'a: {v: 1}\nx: !Inner {v: 5}\ny: 1e5\n',
            'B': 'a: {v: 2}\nz: [yes, !Outer {}]\n'}

    def show(o):
        return [o.a.v, repr(dict(o.extra))]
    seq = {k: show(fn(t)) for k, t in docs.items()}
    orig = getattr(yc.Constructor, name)
    b_entered = threading.Event()
    a_waiting = threading.Event()
    who = {}

    def patched(self, node, known):
        me = who.get(threading.get_ident())
        if me == 'A' and not a_waiting.is_set():
            a_waiting.set()
            b_entered.wait(5)          # hold A after Enter, before Strip
        elif me == 'B':
            b_entered.set()
        return orig(self, node, known)
    setattr(yc.Constructor, name, patched)
    res = {}

    def work(k):
        who[threading.get_ident()] = k
        if k == 'B':
            a_waiting.wait(5)
        try:
            res[k] = show(fn(docs[k]))
        except Exception as e:  # noqa
            res[k] = ['EXC', type(e).__name__, str(e)[:100]]
    try:
        ts = [threading.Thread(target=work, args=(k,)) for k in 'AB']
        for t in ts:
            t.start()
        for t in ts:
            t.join(20)
    finally:
        setattr(yc.Constructor, name, orig)
    V.evaluations += 2
    for k in 'AB':
        if res.get(k) != seq[k]:
            V.violation({'part': 'threads', 'doc': docs[k]},
                        'forced interleaving (t1 Enter, t2 Enter, t1 Strip): '
                        'load(%r) gave %s, sequentially %s' % (
                            docs[k], res.get(k), seq[k]))
    V.notes['forced_race'] = 'schedule of LoadThreads.RaceIsReachable replayed'


def forced_overlap(V):
    """A call of one load function overlaps a complete call of another one
    that was created from the same classes but for another document type:
    the second call runs in another thread while the first is reading its
    input stream.  Both must give their sequential results."""
    import io
    import typing
    y = Y()

    class Item:
        def __init__(self, n: int) -> None:
            self.n = n
    fns = {'item': (y.load_function(Item), 'n: 1\n'),
           'items': (y.load_function(typing.List[Item], Item), '- n: 2\n'),
           'int': (y.load_function(int), '3\n'),
           'str': (y.load_function(str), 'abc\n'),
           'dict': (y.load_function(typing.Dict[str, int]), 'a: 4\n')}

    def call(fn, arg):
        try:
            v = fn(arg)
        except Exception as e:  # noqa
            return ['EXC', type(e).__name__, str(e)[:80]]
        if isinstance(v, list):
            return ['list'] + [getattr(i, 'n', i) for i in v]
        return [type(v).__name__, getattr(v, 'n', v)]
    seq = {k: call(f, t) for k, (f, t) in fns.items()}

    class Overlapped(io.StringIO):
        def __init__(self, text, other):
            io.StringIO.__init__(self, text)
            self.other = other
            self.res = None

        def read(self, *a):
            if self.res is None:
                box = {}
                t = threading.Thread(
                    target=lambda: box.setdefault('r', call(*fns[self.other])))
                t.start()
                t.join(20)
                self.res = box.get('r', ['EXC', 'timeout', ''])
            return io.StringIO.read(self, *a)
    n = 0
    for a in fns:
        for b in fns:
            if a == b:
                continue
            n += 2
            s = Overlapped(fns[a][1], b)
            ra = call(fns[a][0], s)
            if ra != seq[a] or s.res != seq[b]:
                V.violation({'part': 'overlap', 'pair': [a, b]},
                            'load function %r called while load function %r '
                            'was reading its stream (other thread): results '
                            '%s / %s, sequentially %s / %s' % (
                                b, a, ra, s.res, seq[a], seq[b]))
    V.evaluations += n
    V.notes['forced_overlap'] = '%d overlapping pairs of calls' % (n // 2)


def run(tier, replay=None):
    V = Verdict('C11', tier)
    V.assumptions = [
        'the fresh-interpreter result of (kind, classes, argument) is the '
        'meaning of a call (Sem in the specification)',
        'concurrency: calls flagged `par` run in 3 threads x 20 repetitions '
        'against a noise thread with switch interval 1e-6 s; preemption '
        'points are CPython\'s',
    ]
    use_repo()
    if replay:
        rec = json.load(open(replay))
        case = rec['case']
        _W['classes'] = make_classes()
        combos = {(h['kind'], tuple(h['classes'] if isinstance(
            h['classes'], list) else []), h['arg'])
            for h in case['hist'] if h['op'] == 'call'}
        _W['ref'] = fresh_results([(k, list(c), a) for k, c, a in combos])
        _W['base'] = base_snapshot()
        _W['cvars'] = class_vars(_W['classes'])
        errs, _ = replay_history(case)
        for e in errs:
            print(e)
        return 1 if errs else 0
    # exhaustive at the small bound; the thorough tier adds random longer
    # histories over all class sets (TLC simulation mode): exhaustive
    # exploration at that size is some 10^8 histories
    r = run_tlc('MC_Registry', 'MC_Registry_q.cfg', timeout=7200)
    V.add_tlc(r, 'Registry histories MC_Registry_q.cfg (exhaustive)')
    if tier != 'quick':
        rs = run_tlc('MC_Registry', 'MC_Registry_t.cfg', timeout=7200,
                     simulate='num=40000', depth=8, seed=SEED,
                     name='MC_Registry_sim')
        if rs.error:
            raise MachineryError('Registry simulation failed: %s' % rs.error)
        if rs.violated:
            V.add_tlc(rs, 'Registry histories MC_Registry_t.cfg (simulation)')
        else:
            V.tlc_runs.append({'what': 'Registry histories MC_Registry_t.cfg '
                               '(simulation, %d behaviours of 6 operations '
                               'over 3 functions)' % len(rs.cases),
                               'violated': [], 'wall_s': round(rs.wall, 1)})
        r.cases.extend(rs.cases)
    # threads: all interleavings of concurrent loads over the shared
    # Constructor cell (model level), the racy schedule replayed for real
    rt = run_tlc('LoadThreads', 'LoadThreads.cfg', timeout=600,
                 want_cases=False)
    V.add_tlc(rt, 'LoadThreads: interleavings of 3 concurrent loads')
    rr = run_tlc('LoadThreads', 'LoadThreads_race.cfg', timeout=600,
                 want_cases=False, workers=1, name='loadthreads-race')
    if not rr.violated:
        raise MachineryError('LoadThreads: the race on the shared cell should '
                             'be reachable (vacuity check)')
    # PyYAML's tables as they are before this process has created or called
    # any yatiml function (the forced race below performs real loads)
    _W['base'] = base_snapshot()
    forced_race(V)
    forced_overlap(V)
    if base_snapshot() != _W['base']:
        V.violation({'part': 'forced_race'},
                    'loading (the forced racy schedule) changed PyYAML\'s own '
                    'registries or the behaviour of yaml.safe_load/safe_dump')
    cases = r.cases
    if not cases:
        raise MachineryError('no Registry histories exported')
    combos = set()
    for c in cases:
        for h in c['hist']:
            if h['op'] == 'call':
                combos.add((h['kind'], tuple(h['classes'] if isinstance(
                    h['classes'], list) else []), h['arg']))
    ref = fresh_results([(k, list(cs), a) for k, cs, a in sorted(combos)])
    V.notes['fresh_interpreter_references'] = len(ref)
    # one process replays all histories one after the other: the whole run is
    # itself one long history
    import random
    rnd = random.Random(SEED)
    rnd.shuffle(cases)
    limit = 2000 if tier == 'quick' else 30000
    names = {'A1': 'A', 'A2': 'A', 'B': 'B', 'E': 'E', 'S1': 'S', 'S2': 'S'}

    def score(c):
        """prefer histories in which functions over same-named but different
        classes are both created and used, and failing calls precede others"""
        sc = 0
        created = []
        called = set()
        for h in c['hist']:
            cs = tuple(h['classes']) if isinstance(h['classes'], list) else ()
            if h['op'] == 'create':
                for ocs, okind in created:
                    if (okind == h['kind'] and ocs != cs and
                            {names[x] for x in ocs} & {names[x] for x in cs}):
                        sc += 5
                    if okind != 'load' and h['kind'] != 'load' and ocs != cs \
                            and set(ocs) & set(cs):
                        sc += 5
                created.append((cs, h['kind']))
            elif h['op'] == 'call':
                if called and (h['f'] not in called):
                    sc += 3
                called.add(h['f'])
                if h['arg'] in ('bad', 'xabc'):
                    sc += 1
                if h['arg'] == 'cyc' and any(
                        g['op'] == 'call' and g['arg'] == 'coll'
                        for g in c['hist'][:c['hist'].index(h)]):
                    sc += 6
        return sc
    par_cases = [c for c in cases if any(h['par'] for h in c['hist'])]
    seq_cases = [c for c in cases if not any(h['par'] for h in c['hist'])]
    seq_cases.sort(key=score, reverse=True)
    chosen = seq_cases[:limit] + par_cases[:limit // 20]
    _W['classes'] = make_classes()
    _W['ref'] = ref
    _W['cvars'] = class_vars(_W['classes'])
    for c in chosen:
        errs, n = replay_history(c)
        V.replayed += 1
        V.evaluations += n
        V.nontrivial.add(json.dumps(c['hist'], sort_keys=True))
        for e in errs:
            V.violation(c, e)
    V.notes['histories_exported'] = len(cases)
    V.notes['histories_replayed'] = len(chosen)
    V.sample({'history': [[h['op'], h['kind'], h['classes'], h['arg'],
                           h['par']] for h in chosen[0]['hist']]})
    V.exhaustive = len(chosen) == len(cases)
    return V.finish(
        'every history of creates/calls/probes up to the bound (TLC), a '
        'seeded sample of them replayed sequentially in one process (so the '
        'run is one long history), call results compared with fresh-'
        'interpreter references; distinct = distinct histories')


if __name__ == '__main__':
    if len(sys.argv) > 1 and sys.argv[1] == '--fresh':
        sys.path.insert(0, os.path.dirname(os.path.abspath(__file__)))
        fresh_main(sys.argv[2:])
