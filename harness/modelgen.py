"""Turns catalogue class models into real Python classes and maps concrete
values / exceptions to the specification's abstract terms."""
import collections
import datetime
import enum
import math
import pathlib
import typing

LOG = []            # ('sav'|'swe'|'rec'|'init', defining class, cls arg, extra)


class Built:
    """The Python realisation of one catalogue model."""

    def __init__(self, model, yatiml, flavor=0):
        self.model = model
        self.yatiml = yatiml
        self.flavor = flavor
        self.classes = {}
        self.byname = {c['name']: c for c in model['classes']}
        for c in model['classes']:
            self.classes[c['name']] = self._make(c)
        self.registered = [self.classes[n] for n in model['reg']]

    # ---- types ------------------------------------------------------------
    def pytype(self, t):
        k = t[0]
        if k == 'str':
            return str
        if k == 'int':
            return int
        if k == 'float':
            return float
        if k == 'bool':
            return bool
        if k == 'boolfix':
            return self.yatiml.bool_union_fix
        if k == 'null':
            return type(None)
        if k == 'date':
            return datetime.date
        if k == 'path':
            return pathlib.Path
        if k == 'any':
            return typing.Any
        if k == 'list':
            gen = [typing.List, typing.Sequence,
                   typing.MutableSequence][self.flavor % 3]
            return gen[self.pytype(t[1])]
        if k == 'dict':
            gen = [typing.Dict, typing.Mapping,
                   typing.MutableMapping][self.flavor % 3]
            return gen[self.pytype(t[1]), self.pytype(t[2])]
        if k == 'union':
            ms = [self.pytype(m) for m in t[1]]
            if self.flavor >= 3:
                ms = list(reversed(ms))
            return typing.Union[tuple(ms)]
        if k == 'class':
            return self.classes[t[1]]
        raise ValueError('type %r' % (t,))

    def pyvalue(self, v):
        """abstract value -> Python value (for defaults and effects)."""
        k = v[0]
        if k == 'str':
            return v[1]
        if k == 'int':
            return int(v[1])
        if k == 'float':
            return float(v[1])
        if k == 'bool':
            return v[1] == 'true'
        if k == 'null':
            return None
        if k == 'date':
            return datetime.date.fromisoformat(v[1])
        if k == 'datetime':
            return datetime.datetime.fromisoformat(v[1])
        if k == 'list':
            return [self.pyvalue(x) for x in v[1]]
        if k in ('dict', 'odict'):
            items = [(self.pyvalue(v[1][i]), self.pyvalue(v[1][i + 1]))
                     for i in range(0, len(v[1]), 2)]
            return (collections.OrderedDict if k == 'odict' else dict)(items)
        if k == 'path':
            return pathlib.Path(v[1])
        if k == 'enum':
            return self.classes[v[1]][v[2]]
        if k == 'strlike':
            return self.classes[v[1]](v[2])
        if k == 'obj':
            kw = {}
            for i in range(0, len(v[2]), 2):
                kw[v[2][i]] = self.pyvalue(v[2][i + 1])
            return self.classes[v[1]](**kw)
        raise ValueError('value %r' % (v,))

    # ---- effects ----------------------------------------------------------
    def _scalar(self, tag, val):
        return {'str': lambda: val, 'int': lambda: int(val),
                'float': lambda: float(val), 'bool': lambda: val == 'true',
                'null': lambda: None}[tag]()

    def _realtag(self, tag):
        return tag if tag.startswith('!') else 'tag:yaml.org,2002:' + tag

    def apply_effect(self, e, node):
        y = self.yatiml
        k = e[0]
        if k == 'none':
            return
        if k == 'raise_seasoning':
            if len(e) > 1 and e[1] == 'noargs':
                raise y.SeasoningError()
            raise y.SeasoningError('seasoning failed on purpose')
        if k == 'rename':
            if node.is_mapping():
                node.rename_attribute(e[1], e[2])
        elif k == 'dashes_to_unders':
            if node.is_mapping():
                node.dashes_to_unders_in_keys()
        elif k == 'unders_to_dashes':
            if node.is_mapping():
                node.unders_to_dashes_in_keys()
        elif k == 'set_attr':
            if node.is_mapping():
                node.set_attribute(e[1], self._scalar(e[2], e[3]))
        elif k == 'tag_child':
            if node.is_mapping() and node.has_attribute(e[1]):
                node.get_attribute(e[1]).yaml_node.tag = self._realtag(e[2])
        elif k == 'to_scalar':
            node.set_value(self._scalar(e[1], e[2]))
        elif k == 'scalar_to_mapping':
            if node.is_scalar():
                text = node.yaml_node.value
                node.make_mapping()
                node.set_attribute(e[1], text)
        elif k == 'mapping_to_scalar':
            if node.is_mapping() and node.has_attribute(e[1]):
                node.set_value(node.get_attribute(e[1]).get_value())
        elif k == 'read_value':
            if node.is_mapping():
                for name in e[1:]:
                    if node.has_attribute(name):
                        a = node.get_attribute(name)
                        if a.is_scalar():
                            a.get_value()
        elif k == 'need_attr':
            if node.is_mapping():
                node.get_attribute(e[1])
        elif k == 'remove_defaults':
            node.remove_attributes_with_default_values(self.classes[e[1]])
        elif k == 'map_to_seq':
            node.map_attribute_to_seq(*e[1:])
        elif k == 'seq_to_map':
            node.seq_attribute_to_map(*e[1:])
        elif k == 'map_to_index':
            node.map_attribute_to_index(*e[1:])
        elif k == 'index_to_map':
            node.index_attribute_to_map(e[1], e[2], e[3] or None)
        else:
            raise ValueError('effect %r' % (e,))

    def apply_recog(self, e, node):
        y = self.yatiml
        k = e[0]
        if k == 'permissive':
            return
        if k == 'reject':
            raise y.RecognitionError('rejected on purpose')
        if k == 'require_mapping':
            node.require_mapping()
        elif k == 'require_scalar_str':
            node.require_scalar(str)
        elif k == 'require_attr':
            node.require_attribute(e[1])
        elif k == 'require_attr_type':
            node.require_attribute(e[1], self.pytype(e[2]))
        elif k == 'require_value':
            node.require_attribute_value(e[1], self._scalar(e[2], e[3]))
        else:
            raise ValueError('recogniser %r' % (e,))

    # ---- classes ----------------------------------------------------------
    def _make(self, c):
        name = c['name']
        built = self
        bases = tuple(self.classes[b] for b in c['bases'])
        if c['kind'] == 'enum':
            if c.get('strmixin'):
                # class X(str, enum.Enum) with values unlike the names
                cls = enum.Enum(name, {m: 'value-of-' + m
                                       for m in c['members']}, type=str)
            else:
                cls = enum.Enum(name, {m: i + 1 for i, m in
                                       enumerate(c['members'])})
            cls.__module__ = __name__
            self._hooks(cls, c)
            return cls
        if c['kind'] == 'mixin':
            cls = type(name, bases or (object,), {})
            cls.__module__ = __name__
            self._hooks(cls, c)
            return cls
        if c['kind'] in ('strlike', 'userstring', 'ystring'):
            rejects = set(c['rejects'])
            noargs = c.get('noargsexc')

            def refuse(v):
                if noargs:
                    raise LookupError()
                raise ValueError('rejected string %r' % (v,))
            if c['kind'] == 'strlike':
                class S(*(bases or (str,))):
                    def __init__(self, v=''):
                        if str(v) in rejects:
                            refuse(v)
            elif c['kind'] == 'userstring':
                class S(*(bases or (collections.UserString,))):
                    def __init__(self, v=''):
                        if str(v) in rejects:
                            refuse(v)
                        super().__init__(v)
            else:
                class S(*(bases or (self.yatiml.String,))):
                    def __init__(self, v=''):
                        if str(v) in rejects:
                            refuse(v)
                        self._v = v

                    def __str__(self):
                        return self._v

                    def __eq__(self, o):
                        return type(o) is type(self) and o._v == self._v

                    def __hash__(self):
                        return hash(self._v)
            S.__name__ = S.__qualname__ = name
            self._hooks(S, c)
            return S
        # plain class with a typed __init__ generated as source text
        ns = {'typing': typing, '_B': self, '_LOG': LOG,
              'OrderedDict': collections.OrderedDict}
        params = ['self']
        for i, p in enumerate(c['params']):
            s = p['name']
            if p['annotated']:
                ns['_T%d' % i] = self.pytype(p['type'])
                s += ': _T%d' % i
            if not p['required']:
                ns['_D%d' % i] = self.pyvalue(p['default'])
                s += ' = _D%d' % i
            params.append(s)
        if c['extra']:
            xp = ('_yatiml_extra = None' if c.get('extraann') == 'none'
                  else '_yatiml_extra: OrderedDict = None')
            if c.get('extramid'):
                nreq = len([p for p in c['params'] if p['required']])
                params.insert(1 + nreq, xp)
            else:
                params.append(xp)
        if c.get('kwonly'):
            params.append('*')
            for k in c['kwonly']:
                kn, _, kd = k.partition('=')
                params.append('%s: int%s' % (kn, ' = ' + kd if kd else ''))
        names = [p['name'] for p in c['params']]
        body = ['    def __init__(%s) -> None:' % ', '.join(params),
                '        _kw = [%s]' % ', '.join(
                    '(%r, %s)' % (n, n) for n in names)]
        if c['extra']:
            body.append("        _kw.append(('_yatiml_extra', "
                        "_yatiml_extra))")
            body.append('        self._yatiml_extra = _yatiml_extra if '
                        '_yatiml_extra is not None else OrderedDict()')
        body.append('        _LOG.append(("init", %r, type(self)._verif_name, '
                    '_kw))' % name)
        if c['initraises'] and not c.get('kwonly'):
            body.append('        raise %s' % (
                'AssertionError()' if c.get('noargsexc') else
                'ValueError("constructor of %s refuses")' % name))
        if c.get('raisesif'):
            ns['_RV'] = self.pyvalue(c['raisesif'][1])
            body.append('        if type(%s) is type(_RV) and %s == _RV:' % (
                c['raisesif'][0], c['raisesif'][0]))
            body.append('            raise ValueError("constructor of %s '
                        'refuses this value")' % name)
        ya = c.get('yattrs') or []
        for n in names:
            body.append('        self.%s%s = %s' % ('_p_' if ya else '', n, n))
        if ya:
            body.append('    def _yatiml_attributes(self):')
            body.append('        return OrderedDict([%s])' % ', '.join(
                '(%r, self._p_%s)' % (n, n) for n in ya))
        src = 'class %s(%s):\n%s\n' % (
            name, ', '.join('_base%d' % i for i in range(len(bases)))
            or 'object', '\n'.join(body))
        for i, b in enumerate(bases):
            ns['_base%d' % i] = b
        if c.get('absflavor') == 'abc_second' and not bases:
            import abc
            ns['_base0'] = type('_VerifMixin', (), {})
            ns['_base1'] = abc.ABC
            src = src.replace('(object)', '(_base0, _base1)')
        elif c['abstract'] and not bases:
            import abc
            ns['_base0'] = abc.ABC
            src = src.replace('(object)', '(_base0)')
        exec(src, ns)
        cls = ns[name]
        cls.__module__ = __name__
        cls.__name__ = cls.__qualname__ = c.get('pyname', name)
        cls._verif_params = names
        if c.get('hasydef'):
            cls._yatiml_defaults = {n: self.pyvalue(v)
                                    for n, v in c['ydefaults']}
        if c['abstract'] and bases:
            import abc
            cls.__abstractmethods__ = frozenset({'_abstract_marker'})
        self._hooks(cls, c)
        return cls

    def _hooks(self, cls, c):
        name = c['name']
        built = self
        cls._verif_name = name
        if c['hasrecog']:
            def rec(k, node, _e=c['recog']):
                LOG.append(('rec', name, getattr(k, '_verif_name', k.__name__), None))
                built.apply_recog(_e, node)
            cls._yatiml_recognize = classmethod(rec)
        if c['hassav']:
            def sav(k, node, _e=c['sav']):
                LOG.append(('sav', name, getattr(k, '_verif_name', k.__name__), None))
                built.apply_effect(_e, node)
            cls._yatiml_savorize = classmethod(sav)
        if c['hasswe']:
            def swe(k, node, _e=c['swe']):
                LOG.append(('swe', name, getattr(k, '_verif_name', k.__name__), None))
                built.apply_effect(_e, node)
            cls._yatiml_sweeten = classmethod(swe)

    # ---- abstraction of values ---------------------------------------------
    def abstract(self, v):
        t = type(v)
        if t is bool:
            return ['bool', 'true' if v else 'false']
        if t is int:
            return ['int', repr(v)]
        if t is float:
            return ['float', 'nan' if math.isnan(v) else repr(v)]
        if v is None:
            return ['null']
        if t is str:
            return ['str', v]
        if t is datetime.datetime:
            return ['datetime', v.isoformat()]
        if t is datetime.date:
            return ['date', v.isoformat()]
        if t is list:
            return ['list', [self.abstract(x) for x in v]]
        if t is collections.OrderedDict or t is dict:
            flat = []
            for k, x in v.items():
                flat.append(self.abstract(k))
                flat.append(self.abstract(x))
            return ['odict' if t is collections.OrderedDict else 'dict', flat]
        if isinstance(v, pathlib.PurePath):
            return ['path', str(v)]
        if t is bytes:
            return ['bytes', v.hex()]
        for name, cls in self.classes.items():
            if t is cls:
                c = self.byname[name]
                if c['kind'] == 'enum':
                    return ['enum', name, v.name]
                if c['kind'] in ('strlike', 'userstring', 'ystring'):
                    return ['strlike', name, str(v)]
                attrs = {}
                pre = '_p_' if c.get('yattrs') else ''
                for p in c['params']:
                    attrs[p['name']] = self.abstract(
                        getattr(v, pre + p['name'], '<missing>'))
                if c['extra']:
                    attrs['_yatiml_extra'] = self.abstract(
                        getattr(v, '_yatiml_extra', None))
                return ['obj', name, attrs]
        return ['unknown', t.__name__, repr(v)[:80]]

    def normalise(self, v):
        """Spec value -> the shape `abstract` produces (defaults filled in,
        attributes as a dict)."""
        k = v[0]
        if k == 'list':
            return ['list', [self.normalise(x) for x in v[1]]]
        if k in ('dict', 'odict'):
            return [k, [self.normalise(x) for x in v[1]]]
        if k == 'obj':
            c = self.byname[v[1]]
            attrs = {}
            for p in c['params']:
                if not p['required']:
                    attrs[p['name']] = self.normalise(p['default'])
            for i in range(0, len(v[2]), 2):
                attrs[v[2][i]] = self.normalise(v[2][i + 1])
            return ['obj', v[1], attrs]
        return list(v)

    def norm_kwargs(self, cname, kw):
        """kwargs as logged by the generated __init__ -> comparable dict with
        defaults for omitted parameters."""
        return {k: self.abstract(x) for k, x in kw}

    # ---- independent conformance check (C01) --------------------------------
    def conforms(self, v, t):
        k = t[0]
        if k == 'any':
            return self.plain(v)
        if k == 'str':
            return type(v) is str
        if k == 'int':
            return type(v) is int
        if k == 'float':
            return type(v) is float
        if k in ('bool', 'boolfix'):
            return type(v) is bool
        if k == 'null':
            return v is None
        if k == 'date':
            return type(v) in (datetime.date, datetime.datetime)
        if k == 'path':
            return isinstance(v, pathlib.PurePath)
        if k == 'list':
            return type(v) is list and all(self.conforms(x, t[1]) for x in v)
        if k == 'dict':
            return (isinstance(v, dict) and
                    all(self.conforms(a, t[1]) and self.conforms(b, t[2])
                        for a, b in v.items()))
        if k == 'union':
            return any(self.conforms(v, m) for m in t[1])
        if k == 'class':
            cls = self.classes[t[1]]
            if not isinstance(v, cls):
                return False
            name = getattr(type(v), '_verif_name', type(v).__name__)
            c = self.byname.get(name)
            if c is None or name not in self.model['reg'] or c['abstract']:
                return False
            if c['kind'] != 'plain':
                return True
            pre = '_p_' if c.get('yattrs') else ''
            for p in c['params']:
                if not self.conforms(getattr(v, pre + p['name'], None),
                                     p['type']):
                    # a default may itself be outside the annotation (None)
                    if not p['required'] and self.abstract(getattr(
                            v, pre + p['name'], None)) == list(p['default']):
                        continue
                    return False
            if c['extra']:
                ex = getattr(v, '_yatiml_extra', None)
                if not isinstance(ex, dict) or not all(
                        type(a) is str and self.plain(b)
                        for a, b in ex.items()):
                    return False
            return True
        return False

    def plain(self, v):
        """Plain data: dicts, lists and built-in scalars only."""
        if v is None or type(v) in (str, int, float, bool, bytes,
                                    datetime.date, datetime.datetime):
            return True
        if type(v) is list:
            return all(self.plain(x) for x in v)
        if type(v) in (dict, collections.OrderedDict):
            return all(self.plain(a) and self.plain(b) for a, b in v.items())
        if type(v) is set:
            return all(self.plain(x) for x in v)
        return False


def exc_class(yatiml, e):
    import yaml
    if isinstance(e, yatiml.RecognitionError):
        return 'RecErr'
    if isinstance(e, yaml.YAMLError):
        return 'YamlErr'
    return 'Other:' + type(e).__name__
