#!/venv/bin/python
"""Demonstrates that the trace bindings constrain: a recorded trace with one
corrupted field must be rejected by TLC (exit 0 if both demonstrations work)."""
import json
import os
import random
import re
import sys

sys.path.insert(0, os.path.dirname(os.path.abspath(__file__)))
os.environ['YATIML_VERIF'] = '1'
from common import BUILD, run_tlc, use_repo  # noqa
import trace_json  # noqa

use_repo()
os.makedirs(BUILD, exist_ok=True)
traces = trace_json.record_generated(40, random.Random(1))
ok = True
# (1) untouched traces are accepted
p = os.path.join(BUILD, 'selftest-traces.json')
json.dump(traces, open(p, 'w'))
r = run_tlc('MC_Trace_Json', 'Trace_Json.cfg', workers=1,
            env={'TRACE_FILE': p}, want_cases=False, name='selftest-tj')
acc = re.search(r'"REJECTED",\s*\{\s*\}', r.stdout) is not None
print('untouched emit_json traces accepted:', acc)
ok &= acc
# (2) one corrupted stack entry / indent / token -> rejected at that event
for what in ('st', 'ind', 'toks'):
    bad = json.loads(json.dumps(traces))
    t = next(t for t in bad if len(t['events']) > 6)
    e = t['events'][4]
    if what == 'st':
        e['st'] = e['st'][:-1] + ['KEY' if e['st'][-1] != 'KEY' else 'SEQ']
    elif what == 'ind':
        e['ind'] += 1
    else:
        e['toks'] = e['toks'] + [[',']]
    json.dump(bad, open(p, 'w'))
    r = run_tlc('MC_Trace_Json', 'Trace_Json.cfg', workers=1,
                env={'TRACE_FILE': p}, want_cases=False, name='selftest-tj')
    rej = re.search(r'"REJECTED",\s*\{\s*\d+\s*\}', r.stdout) is not None
    print('trace with corrupted %s rejected: %s' % (what, rej))
    ok &= rej
# (3) recorded dumps of the repository's tests: accepted as recorded; with one
#     attribute value of one recorded object changed, or two attributes of one
#     object swapped, the text no longer matches what the specification writes
import common  # noqa
import trace_dump  # noqa


def run_dump(corrupt):
    V = common.Verdict('C06', 'quick')
    V.replay_dir = os.path.join(BUILD, 'selftest-replay')
    os.makedirs(V.replay_dir, exist_ok=True)
    import contextlib
    import io
    with contextlib.redirect_stdout(io.StringIO()):
        trace_dump.validate(V, 'quick', corrupt=corrupt)
    return len(V.violations)


def change_value(recs):
    for r in recs:
        for o in r['oh']:
            if o['k'] == 'int':
                o['v'] = str(int(o['v']) + 1)
                return


def swap_fields(recs):
    for r in recs:
        for o in r['oh']:
            if o['k'] == 'obj' and len(o['f']) >= 2 and o['f'][0] != o['f'][1]:
                o['f'][0], o['f'][1] = o['f'][1], o['f'][0]
                return


n0 = run_dump(None)
print('untouched recorded dumps accepted:', n0 == 0)
ok &= n0 == 0
for name, fn in (('changed value', change_value), ('swapped attributes',
                                                   swap_fields)):
    n = run_dump(fn)
    print('recorded dump with %s rejected: %s' % (name, n > 0))
    ok &= n > 0
sys.exit(0 if ok else 1)
