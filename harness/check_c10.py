"""C10 - hooks run once, own class only, bases first: load side on the
load-pipeline exploration, dump side on the RoundTrip exploration."""
import loadcheck


def run(tier, replay=None):
    return loadcheck.run('C10', tier, replay, extra=loadcheck.c10_sweeten)
