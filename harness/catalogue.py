"""One catalogue of class-model families, shared by TLC and Python.

`build()` returns the JSON structure written to build/models.json, which
 (a) spec/YatimlLoad.tla reads with JsonDeserialize (IOEnv.YATIML_MODELS), and
 (b) harness/modelgen.py turns into real Python classes.

Types (JSON arrays, TLA+ tuples):
  ["str"] ["int"] ["float"] ["bool"] ["boolfix"] ["null"] ["date"] ["path"]
  ["any"] ["list", T] ["dict", KT, VT] ["union", [T1, T2, ...]] ["class", N]
Values (abstract Python values):
  ["str", s] ["int", s] ["float", s] ["bool", s] ["null"] ["date", s]
  ["datetime", s] ["list", [v..]] ["dict", [k1, v1, ..]] ["odict", [k1, v1..]]
  ["obj", C, [name1, v1, ...]] ["enum", C, m] ["strlike", C, s] ["path", s]
Effects: ["none"] ["rename", a, b] ["dashes_to_unders"] ["raise_seasoning"]
  ["set_attr", name, tag, val] ["tag_child", name, tag] ["to_scalar", tag, val]
  ["scalar_to_mapping", attr] ; recognisers: ["auto"] ["permissive"]
  ["reject"] ["require_attr", name] ["require_attr_type", name, T]
  ["require_value", name, tag, val] ["require_scalar_str"] ["require_mapping"]
"""
import copy

STR, INT, FLOAT, BOOL, BOOLFIX, NULL, DATE, PATH, ANY = (
    ['str'], ['int'], ['float'], ['bool'], ['boolfix'], ['null'], ['date'],
    ['path'], ['any'])


def L(t):
    return ['list', t]


def D(v, k=None):
    return ['dict', k or STR, v]


def U(*ts):
    return ['union', list(ts)]


def Opt(t):
    return U(t, NULL)


def K(name):
    return ['class', name]


NODEF = ['nodef']


def P(name, typ=None, default=NODEF):
    """A constructor parameter.  typ None = unannotated (treated as Any)."""
    return {'name': name, 'dname': name.replace('_', '-'),
            'type': typ if typ is not None else ANY,
            'annotated': typ is not None,
            'required': default is NODEF, 'default': default}


def C(name, params=(), kind='plain', bases=(), abstract=False, extra=False,
      pyname=None, yattrs=(), noargs_exc=False, kwonly=(),
      members=(), rejects=(), recog=None, sav=None, swe=None,
      init_raises=False, attrs_private=False, ydefaults=(), raisesif=(),
      strmixin=False, extraann='odict', extramid=False):
    return {
        'name': name, 'pyname': pyname or name, 'kind': kind,
        'bases': list(bases),
        'abstract': bool(abstract),
        'absflavor': abstract if isinstance(abstract, str) else '',
        'extra': extra,
        'params': list(params), 'members': list(members),
        'rejects': list(rejects),
        'hasrecog': recog is not None, 'recog': recog or ['auto'],
        'hassav': sav is not None, 'sav': sav or ['none'],
        'hasswe': swe is not None, 'swe': swe or ['none'],
        'initraises': init_raises,
        # [param name, abstract value]: __init__ refuses exactly that value
        'raisesif': list(raisesif),
        'strmixin': strmixin,
        # annotation of the _yatiml_extra parameter: 'odict' | 'none'
        'extraann': extraann,
        # _yatiml_extra declared between the required and the optional parameters
        'extramid': extramid,
        # class-level _yatiml_defaults: [[param, abstract value], ...]
        'hasydef': bool(ydefaults), 'ydefaults': [list(x) for x in ydefaults],
        'yattrs': list(yattrs), 'noargsexc': noargs_exc,
        'kwonly': list(kwonly),
    }


# scalar alphabet entries: [tag, val]
S_ABC = ['str', 'abc']
S_42Q = ['str', '42']           # the quoted string "42"
S_42 = ['int', '42']
S_7 = ['int', '7']
S_15 = ['float', '1.5']
S_TRUE = ['bool', 'true']
S_NULL = ['null', 'null']
S_DATE = ['timestamp', '2020-01-02']
S_RED = ['str', 'red']
S_BLUE = ['str', 'blue']


def M(mid, classes, doctypes, keys, scalars, reg=None, qtags=('seq',),
      mtags=('map',), oddkeys=(), stags=(), family='load', note='',
      qn=4, tn=None, strs=(), dump=True, rtypes=None,
      qo=4, to=5, an=None, rootk='', nodup=False, aliask=('s', 'q', 'm'),
      cyc=True, qcap=0, ckeys=False):
    names = [c['name'] for c in classes]
    return {
        'id': mid, 'classes': classes,
        'reg': list(reg) if reg is not None else names,
        'doctypes': list(doctypes), 'keys': list(keys),
        'scalars': [list(s) for s in scalars],
        'stags': list(stags),      # extra explicit tags tried on scalars
        'qtags': list(qtags), 'mtags': list(mtags),
        'oddkeys': [list(s) for s in oddkeys],
        'family': family, 'note': note, 'qn': qn,
        'tn': tn if tn is not None else qn,
        'strs': list(strs), 'dump': dump, 'qo': qo, 'to': to, 'an': an if an is not None else qn,
        'rootk': rootk, 'nodup': nodup, 'aliask': list(aliask), 'cyc': cyc,
        'rtypes': list(doctypes if rtypes is None else rtypes),
        # minimum number of rejected documents replayed in the quick tier
        'qcap': qcap,
        # collections may be composed in key position (`? [a] : v`)
        'ckeys': ckeys,
    }


LONG1 = ('A long description that goes well beyond the eighty columns that '
         'PyYAML uses as its preferred width.\n  - an indented bullet that is '
         'itself quite long and passes column eighty after indentation, yes\n'
         'and a last line')
LONG2 = ' starts with a space and then ' + 'goes on and on ' * 8 + 'until the end'


def models():
    ms = []
    # ---- built-in scalars and collections --------------------------------
    ms.append(M('scalars', [], [STR, INT, FLOAT, BOOL, NULL, DATE, PATH, ANY,
                                U(INT, STR), Opt(FLOAT), U(BOOL, INT),
                                U(BOOLFIX, INT), U(BOOL, BOOLFIX, STR)],
                keys=['a'], scalars=[S_ABC, S_42Q, S_42, S_15, S_TRUE, S_NULL,
                                     S_DATE],
                stags=['!Unknown', '!Path', 'int', 'bool', 'timestamp', 'float'],
                family='builtin'))
    ms.append(M('collections', [], [L(INT), L(L(STR)), D(INT), D(L(STR)),
                                    L(U(INT, STR)), D(ANY), L(ANY),
                                    U(L(INT), D(INT)), Opt(L(STR)),
                                    L(Opt(INT)), U(L(INT), L(STR))],
                keys=['a', 'b'], scalars=[S_ABC, S_42, S_NULL],
                qtags=('seq', '!Unknown'), mtags=('map', '!Unknown', 'set'),
                oddkeys=[S_42, S_NULL], family='builtin'))
    # ---- a plain class with a default, nested in lists and unions ---------
    pt = C('Pt', [P('x', INT), P('y', STR, ['str', 'dflt'])])
    ms.append(M('plain', [pt], [K('Pt'), L(K('Pt')), D(K('Pt')),
                                U(K('Pt'), INT), Opt(K('Pt')),
                                U(K('Pt'), D(INT)), U(INT, STR)],
                keys=['x', 'y', 'z'], scalars=[S_42, S_ABC, S_15],
                mtags=('map', '!Pt', '!Unknown'), oddkeys=[S_42], tn=5,
                rtypes=[K('Pt'), L(K('Pt')), D(K('Pt')), U(K('Pt'), INT),
                        Opt(K('Pt'))]))
    # ---- _yatiml_extra, untyped and Any parameters -------------------------
    ex = C('Ex', [P('a', INT), P('u'), P('w', ANY, ['null'])], extra=True)
    inner = C('In', [P('v', INT)])
    ms.append(M('extra', [ex, inner], [K('Ex')],
                keys=['a', 'u', 'w', 'q', 'v', '_yatiml_extra'],
                scalars=[S_42, S_ABC],
                mtags=('map', '!In', '!Unknown', '!Ex'),
                stags=['!In', '!Unknown'],
                oddkeys=[S_42], qo=6, to=7, strs=['abc', '42'], tn=5))
    # ---- dashed keys with and without dashes_to_unders ---------------------
    da = C('Da', [P('my_attr', INT), P('o_p', STR, ['str', 'd'])])
    ms.append(M('dashed', [da], [K('Da')],
                keys=['my_attr', 'my-attr', 'o_p', 'o-p'],
                scalars=[S_42, S_ABC], tn=5, an=5, aliask=('s',), cyc=False))
    ds = C('Ds', [P('my_attr', INT), P('o_p', STR, ['str', 'd'])],
           sav=['dashes_to_unders'])
    ms.append(M('dashed_sav', [ds], [K('Ds')],
                keys=['my_attr', 'my-attr', 'o_p', 'o-p'],
                scalars=[S_42, S_ABC], an=5, aliask=('q', 'm'), tn=5))
    # ---- enums and string-likes --------------------------------------------
    col = C('Col', kind='enum', members=['red', 'blue', 'true'])
    sl = C('Sl', kind='strlike', rejects=['abc'])
    us = C('Us', kind='userstring')
    holder = C('Ho', [P('c', K('Col')), P('s', Opt(K('Sl')), ['null'])])
    hd = C('Hd', [P('m', D(INT, K('Us'))),
                  P('k', Opt(D(K('Col'), K('Sl'))), ['null'])])
    ms.append(M('enum_str', [col, sl, us, holder, hd],
                [K('Col'), K('Sl'), K('Us'), K('Ho'), K('Hd'), L(K('Col')),
                 U(K('Col'), INT), U(BOOL, K('Col')), U(K('Col'), BOOL),
                 U(BOOL, K('Sl')), U(K('Us'), BOOL),
                 D(INT, K('Sl')), D(K('Col'), K('Us'))],
                keys=['c', 's', 'red', 'm', 'k'],
                scalars=[S_RED, S_BLUE, S_ABC, S_TRUE, S_42],
                stags=['!Col', '!Sl'],
                rtypes=[K('Col'), K('Sl'), K('Us'), K('Ho'), K('Hd'), L(K('Col')),
                        U(K('Col'), INT), D(INT, K('Sl')),
                        D(K('Col'), K('Us'))]))
    # ---- hierarchy: chain with abstract root, fork -------------------------
    sh = C('Sh', [P('n', STR)], abstract=True)
    ci = C('Ci', [P('n', STR), P('r', INT)], bases=['Sh'])
    sq = C('Sq', [P('n', STR), P('w', INT)], bases=['Sh'])
    cu = C('Cu', [P('n', STR), P('w', INT), P('h', INT, ['int', '1'])],
           bases=['Sq'])
    ms.append(M('hier', [sh, ci, sq, cu],
                [K('Sh'), K('Sq'), L(K('Sh')), U(K('Ci'), K('Sq'))],
                keys=['n', 'r', 'w', 'h'], scalars=[S_ABC, S_42],
                mtags=('map', '!Sq', '!Cu', '!Ci', '!Sh'),
                rtypes=[K('Ci'), L(K('Ci'))]))
    # ---- hooks: savorize chain over a single-inheritance chain -------------
    ba = C('Ba', [P('p', INT)], sav=['rename', 'pp', 'p'])
    mi = C('Mi', [P('p', INT), P('q', INT, ['int', '0'])], bases=['Ba'],
           sav=['none'])
    le = C('Le', [P('p', INT), P('q', INT, ['int', '0']),
                  P('t', STR, ['str', 'x'])], bases=['Mi'],
           sav=['rename', 'tt', 't'])
    ms.append(M('hooks', [ba, mi, le], [K('Ba'), L(K('Ba'))],
                keys=['p', 'pp', 'q', 't', 'tt'], scalars=[S_42, S_ABC],
                mtags=('map', '!Le', '!Ba'), rtypes=[], tn=5))
    # ---- adversarial hooks: permissive recogniser + corrupting savorize ----
    pr = C('Pr', [P('a', INT)], recog=['permissive'])
    cs = C('Cs', [P('a', INT), P('b', STR, ['str', 'd'])],
           sav=['set_attr', 'a', 'str', 'zz'])
    ct = C('Ct', [P('a', INT), P('k', K('Pr'), ['null'])],
           sav=['tag_child', 'a', '!Pr'])
    rs = C('Rs', [P('a', INT)], sav=['raise_seasoning'])
    ts = C('Ts', [P('a', INT)], sav=['to_scalar', 'str', 'zz'])
    ms.append(M('adversarial', [pr, cs, ct, rs, ts],
                [K('Pr'), K('Cs'), K('Ct'), K('Rs'), K('Ts'), L(K('Pr'))],
                keys=['a', 'b', 'k'], scalars=[S_42, S_ABC, S_TRUE],
                mtags=('map', '!Pr'), rtypes=[], qn=5, tn=5))
    # ---- parsed class: scalar_to_mapping recipe ----------------------------
    pa = C('Pa', [P('txt', STR)], recog=['require_scalar_str'],
           sav=['scalar_to_mapping', 'txt'])
    hp = C('Hp', [P('s', STR), P('p', K('Pa'))])
    ms.append(M('parsed', [pa, hp], [K('Pa'), L(K('Pa')), U(K('Pa'), INT),
                                     K('Hp')],
                keys=['txt', 's', 'p'], scalars=[S_ABC, S_42], rtypes=[],
                an=5, tn=5))
    # ---- custom discriminators ---------------------------------------------
    an = C('An', [P('kind', STR), P('v', INT)], abstract=True)
    ca = C('Ca', [P('kind', STR), P('v', INT)], bases=['An'],
           recog=['require_value', 'kind', 'str', 'red'])
    cb = C('Cb', [P('kind', STR), P('v', INT)], bases=['An'],
           recog=['require_value', 'kind', 'str', 'blue'])
    ce = C('Ce', [P('n', INT), P('v', INT, ['int', '0'])],
           recog=['require_value', 'n', 'int', '42'])
    ms.append(M('discrim', [an, ca, cb, ce], [K('An'), L(K('An')), K('Ce')],
                keys=['kind', 'v', 'n'], scalars=[S_42, S_RED, S_BLUE],
                stags=['int'], mtags=('map', '!Ca', '!Cb'), rtypes=[], tn=5))
    # ---- ambiguity: two indistinguishable subclasses -----------------------
    am = C('Am', [P('a', INT)])
    a1 = C('A1', [P('a', INT)], bases=['Am'])
    a2 = C('A2', [P('a', INT)], bases=['Am'])
    ms.append(M('ambig', [am, a1, a2], [K('Am'), U(K('A1'), K('A2'))],
                keys=['a'], scalars=[S_42],
                mtags=('map', '!A1', '!A2', '!Am', '!Unknown'), rtypes=[], tn=5))
    # ---- raising constructors ----------------------------------------------
    ir = C('Ir', [P('a', INT)], init_raises=True)
    ms.append(M('raising', [ir, sl], [K('Ir'), K('Sl'), L(K('Ir'))],
                keys=['a'], scalars=[S_42, S_ABC], rtypes=[], tn=5))

    # ---- required parameter whose type admits None --------------------------
    oq = C('Oq', [P('a', Opt(INT)), P('b', INT, ['int', '0'])])
    ms.append(M('optreq', [oq], [K('Oq'), L(K('Oq'))], keys=['a', 'b'],
                scalars=[S_42, S_NULL, S_ABC], qn=5, tn=6))
    # ---- three concrete levels, every level adds a required attribute -------
    b3 = C('B3', [P('a', INT)])
    m3 = C('M3', [P('a', INT), P('b', INT)], bases=['B3'])
    l3 = C('L3', [P('a', INT), P('b', INT), P('c', INT)], bases=['M3'])
    ms.append(M('chain', [b3, m3, l3], [K('B3'), K('M3'), U(K('B3'), STR)],
                keys=['a', 'b', 'c'], scalars=[S_42],
                mtags=('map', '!B3', '!M3', '!L3'), qn=5, tn=7,
                rtypes=[], rootk='m', nodup=True))
    # ---- abstract class declared as class X(Mixin, ABC) ----------------------
    ax = C('Ax', [P('n', INT)], abstract='abc_second')
    cx = C('Cx', [P('n', INT), P('r', INT)], bases=['Ax'])
    lb = C('Lb', [P('t', STR)])
    ms.append(M('absmix', [ax, cx, lb], [K('Ax'), U(K('Ax'), K('Lb')),
                                        L(K('Ax'))],
                keys=['n', 'r', 't'], scalars=[S_42, S_ABC],
                mtags=('map', '!Ax', '!Cx'), qn=5, tn=6, rtypes=[K('Cx')]))
    # ---- unknown key with a tagged value, class without _yatiml_extra --------
    p2 = C('P2', [P('x', INT)])
    i2 = C('I2', [P('v', INT)])
    ms.append(M('unk', [p2, i2], [K('P2')], keys=['x', 'z', 'v'],
                scalars=[S_42], mtags=('map', '!I2'), qn=7, tn=7,
                rtypes=[], rootk='m', nodup=True))
    # ---- custom recogniser + Any attribute + duplicate key -------------------
    cr = C('Cr', [P('value', ANY)], recog=['require_mapping'])
    pl = C('Pl', [P('c', INT)])
    ms.append(M('dupany', [cr, pl], [K('Cr')], keys=['value', 'c'],
                scalars=[S_42], mtags=('map', '!Pl'), qn=7, tn=7,
                rtypes=[], rootk='m'))
    # ---- unregistered mix-ins with hooks, listed before / after the parent ---
    mx = C('Mx', kind='mixin', sav=['none'], swe=['none'])
    s2 = C('S2', [P('n', INT)], sav=['rename', 'nn', 'n'], swe=['none'])
    c2 = C('C2', [P('n', INT), P('r', INT, ['int', '0'])], bases=['Mx', 'S2'],
           sav=['rename', 'rr', 'r'], swe=['none'])
    d2 = C('D2', [P('n', INT), P('r', INT, ['int', '0']),
                  P('q', INT, ['int', '0'])], bases=['C2', 'Mx'],
           sav=['none'])
    ms.append(M('mixin', [mx, s2, c2, d2], [K('S2'), L(K('S2'))],
                reg=['S2', 'C2', 'D2'],
                keys=['n', 'nn', 'r', 'rr', 'q'], scalars=[S_42],
                qn=5, tn=6, rtypes=[]))
    # ---- two registered bases whose hooks do not commute ---------------------
    ma = C('Ma', [P('a', INT)], sav=['set_attr', 'k', 'str', 'abc'],
           swe=['set_attr', 'k', 'str', 'abc'])
    mb = C('Mb', [P('a', INT)], sav=['set_attr', 'k', 'str', 'zz'],
           swe=['set_attr', 'k', 'str', 'zz'])
    mc = C('Mc', [P('a', INT), P('k', STR, ['str', 'd'])],
           bases=['Ma', 'Mb'], recog=['require_attr', 'a'])
    ms.append(M('multi', [ma, mb, mc], [K('Mc')], keys=['a', 'k'],
                scalars=[S_42, S_ABC], qn=5, tn=5, rtypes=[]))
    # ---- a node used at a class position and at an Any position --------------
    iy = C('Iy', [P('v', INT)])
    my = C('My', [P('t', K('Iy')), P('u', ANY)])
    ny = C('Ny', [P('u', ANY), P('t', K('Iy'))])
    ms.append(M('mixany', [iy, my, ny], [K('My'), K('Ny')],
                keys=['t', 'u', 'v'],
                scalars=[S_42], qn=3, tn=3, an=7, rtypes=[], rootk='m',
                nodup=True, aliask=('m',), cyc=False))
    # ---- savorize that normalises a scalar with set_value -------------------
    sv = C('Sv', kind='strlike', sav=['to_scalar', 'str', 'zz'])
    hs = C('Hs', [P('label', STR), P('level', K('Sv'))])
    ms.append(M('setval', [sv, hs], [L(K('Sv')), K('Hs')],
                keys=['label', 'level'], scalars=[S_ABC], qn=3, tn=3,
                an=5, rtypes=[]))
    # ---- nested classes for error positions ----------------------------------
    inn = C('Inn', [P('a', INT), P('b', STR), P('d', INT)])
    out = C('Out', [P('i', K('Inn')), P('l', L(K('Inn'))),
                    P('o', Opt(K('Inn')), ['null']),
                    P('c', Opt(K('Col2')), ['null'])])
    col2 = C('Col2', kind='enum', members=['red', 'blue'])
    ms.append(M('nested', [col2, inn, out], [K('Out')],
                keys=['a', 'b', 'd', 'i', 'l', 'o', 'c'],
                scalars=[S_42, S_ABC, S_RED], strs=['abc'], qn=1, tn=1,
                qo=11, to=13))

    # ---- recogniser inherited by subclasses that rely on auto-recognition ----
    br = C('Br', [P('kind', STR), P('v', INT)], recog=['require_attr', 'kind'])
    r1 = C('R1', [P('kind', STR), P('v', INT), P('a', INT)], bases=['Br'])
    r2 = C('R2', [P('kind', STR), P('v', INT), P('b', INT)], bases=['Br'])
    ms.append(M('inhrec', [br, r1, r2], [K('Br')],
                keys=['kind', 'v', 'a', 'b'], scalars=[S_42, S_ABC],
                mtags=('map',), qn=7, tn=7, rootk='m',
                nodup=True, rtypes=[]))
    # ---- a derived class named like its unregistered base --------------------
    dob = C('DocB', [P('a', INT)], pyname='Doc', sav=['rename', 'aa', 'a'],
            swe=['none'])
    doc = C('Doc', [P('a', INT), P('b', INT, ['int', '0'])], bases=['DocB'],
            recog=['require_mapping'], sav=['none'], swe=['none'])
    ms.append(M('samename', [dob, doc], [K('Doc'), L(K('Doc'))],
                reg=['Doc'], keys=['a', 'aa', 'b'], scalars=[S_42],
                qn=5, tn=5, rtypes=[]))
    # ---- lists and dicts of scalars as attributes -----------------------------
    li = C('Li', [P('v', L(INT)), P('w', Opt(D(INT)), ['null'])])
    ms.append(M('lists', [li], [K('Li')], keys=['v', 'w', 'abc'],
                scalars=[S_42, S_ABC], strs=['abc'], qn=5, tn=6, qo=7, to=8))
    # ---- sweeten that sets an attribute to None --------------------------------
    nu = C('Nu', [P('a', INT)], swe=['set_attr', 'u', 'null', ''])
    ms.append(M('nullswe', [nu], [K('Nu'), L(K('Nu'))], keys=['a', 'u'],
                scalars=[S_42], qn=3, tn=3, rtypes=[]))

    # ---- merge keys: below Any they are resolved, elsewhere they are not keys --
    S_MERGE = ['merge', '<<']
    ms.append(M('merge', [], [ANY, D(ANY), D(INT)], keys=['a', 'b'],
                oddkeys=[S_MERGE], scalars=[S_42], qn=6, tn=7, rootk='m',
                rtypes=[]))
    mg = C('Mg', [P('x', INT), P('y', INT, ['int', '0'])])
    ms.append(M('mergecls', [mg], [K('Mg')], keys=['x', 'y'],
                oddkeys=[S_MERGE], scalars=[S_42, S_TRUE], qn=7, tn=7,
                rootk='m', nodup=True, rtypes=[], qcap=8000))

    # ---- a cycle below an extra attribute ---------------------------------------
    xe = C('Xe', [P('a', INT)], extra=True)
    ms.append(M('extracyc', [xe], [K('Xe')], keys=['a', 'q'], scalars=[S_42],
                qn=3, tn=3, an=6, rootk='m', nodup=True, aliask=('q', 'm'),
                rtypes=[]))

    # ---- a dict attribute whose key class is not derived from str --------------
    u2 = C('U2', kind='userstring')
    h2 = C('H2', [P('m', D(INT, K('U2')))])
    ms.append(M('dictkey', [u2, h2], [K('H2')], keys=['m', 'abc'],
                scalars=[S_42], qn=5, tn=6, rootk='m', nodup=True))

    # ---- private attributes exposed through _yatiml_attributes() -----------------
    pv = C('Pv', [P('a', INT), P('c', INT), P('b', STR, ['str', 'd'])],
           yattrs=['b', 'a', 'c'])
    ms.append(M('private', [pv], [K('Pv'), L(K('Pv'))], keys=['a', 'b', 'c'],
                scalars=[S_42, S_ABC], strs=['abc'], family='dump', qn=1,
                tn=1, qo=5, to=6))

    # ---- constructors that refuse without a message; keyword-only parameters --
    ir2 = C('Ir2', [P('a', INT)], init_raises=True, noargs_exc=True)
    sl2 = C('Sl2', kind='strlike', rejects=['abc'], noargs_exc=True)
    kw = C('Kw', [P('name', STR)], kwonly=['low'], init_raises=True)
    kd = C('Kd', [P('name', STR)], kwonly=['low=1'])
    ms.append(M('raising2', [ir2, sl2, kw, kd],
                [K('Ir2'), K('Sl2'), K('Kw'), K('Kd')],
                keys=['a', 'name', 'low'], scalars=[S_42, S_ABC], rtypes=[]))
    # ---- an underscore-named, untyped constructor parameter ---------------------
    um = C('Um', [P('a', INT), P('_meta', None, ['null'])])
    hk = C('Hk', [P('c', INT)])
    ms.append(M('underscore', [um, hk], [K('Um')], keys=['a', '_meta', 'c'],
                scalars=[S_42], mtags=('map', '!Hk'), qn=7, tn=7, rootk='m',
                nodup=True, rtypes=[]))
    # ---- round 4: a subclass whose _yatiml_extra parameter has a default -------
    bx = C('Bx', [P('n', STR)])
    sx = C('Sx', [P('n', STR), P('r', INT)], bases=['Bx'], extra=True)
    ms.append(M('extradef', [bx, sx], [K('Bx'), L(K('Bx'))],
                keys=['n', 'r', 'q'], scalars=[S_ABC, S_42], qn=5, tn=6,
                rtypes=[]))
    # ---- an abstract class between two concrete ones ----------------------------
    en = C('En', [P('n', INT)])
    co = C('Co', [P('n', INT)], bases=['En'], abstract=True)
    fo = C('Fo', [P('n', INT), P('r', INT)], bases=['Co'])
    ms.append(M('absmid', [en, co, fo], [K('En'), L(K('En')), U(K('En'), STR)],
                keys=['n', 'r'], scalars=[S_42],
                mtags=('map', '!Fo', '!Co', '!En'), qn=5, tn=6, rtypes=[]))
    # ---- both spellings of a key in a class with _yatiml_extra ------------------
    de = C('De', [P('my_attr', INT)], extra=True)
    ms.append(M('dashextra', [de], [K('De')], keys=['my_attr', 'my-attr'],
                scalars=[S_42, S_ABC], qn=5, tn=5, rootk='m', rtypes=[]))
    # ---- objects nested in objects of the same class (through the base) ---------
    tn_ = C('Tn', [P('v', INT)])
    tr = C('Tr', [P('v', INT), P('c', Opt(K('Tn')), ['null'])], bases=['Tn'],
           raisesif=['v', ['int', '7']])
    ms.append(M('tree', [tn_, tr], [K('Tn')], keys=['v', 'c'],
                scalars=[S_42, S_7], qn=7, tn=7, rootk='m', nodup=True,
                qtags=(), rtypes=[]))
    tb = C('Tb', [])
    tx = C('Tx', [P('l', Opt(K('Tb')), ['null']), P('r', Opt(K('Tb')), ['null'])],
           bases=['Tb'], extra=True)
    ms.append(M('treex', [tb, tx], [K('Tb')], keys=['l', 'r', 'q'],
                scalars=[S_42], qn=9, tn=9, rootk='m', nodup=True, qtags=(),
                rtypes=[]))
    # ---- a savorize hook that fails on a nested object ---------------------------
    rs2 = C('Rs2', [P('a', INT)], sav=['raise_seasoning', 'noargs'])
    hr = C('Hr', [P('a', INT), P('r', U(K('Rs2'), INT))])
    ms.append(M('savnest', [rs2, hr], [K('Hr')], keys=['a', 'r'],
                scalars=[S_42], qn=7, tn=7, rootk='m', nodup=True, qtags=(),
                rtypes=[]))
    # ---- a savorize hook that fetches an optional attribute ----------------------
    sn = C('Sn', [P('a', INT), P('b', INT, ['int', '0'])], sav=['need_attr', 'b'])
    hn = C('Hn', [P('s', K('Sn'))])
    ms.append(M('savopt', [sn, hn], [K('Hn')], keys=['s', 'a', 'b'],
                scalars=[S_42], qn=7, tn=7, rootk='m', nodup=True, qtags=(),
                rtypes=[]))
    # ---- an index whose key attribute is not a plain str -------------------------
    u3 = C('U3', kind='userstring')
    it = C('It', [P('price', INT), P('name', K('U3'), ['strlike', 'U3', 'dflt'])])
    hx = C('Hx', [P('items', D(K('It')))], sav=['map_to_index', 'items', 'name'])
    ms.append(M('index', [u3, it, hx], [K('Hx')],
                keys=['items', 'abc', 'price', 'name'], scalars=[S_42, S_ABC],
                qn=7, tn=7, rootk='m', nodup=True, qtags=(), rtypes=[]))
    # ---- class-level _yatiml_defaults inherited by a subclass ---------------------
    pa2 = C('Pa2', [P('n', STR), P('kind', STR, ['str', 'abc']),
                    P('i', INT, ['int', '42'])],
            ydefaults=[['i', ['int', '7']]], swe=['remove_defaults', 'Pa2'])
    sp2 = C('Sp2', [P('n', STR), P('kind', STR, ['str', 'red']),
                    P('i', INT, ['int', '42'])], bases=['Pa2'],
            swe=['remove_defaults', 'Sp2'])
    ms.append(M('ydef', [pa2, sp2], [K('Pa2'), K('Sp2')], keys=['n', 'kind', 'i'],
                scalars=[S_42, S_ABC, S_RED, S_7], strs=['abc', 'red'],
                family='dump', qn=1, tn=1, qo=4, to=4, rtypes=[]))
    # ---- an enum that mixes in str ---------------------------------------------------
    lv = C('Lv', kind='enum', members=['hi', 'lo'], strmixin=True)
    hl = C('Hl', [P('lv', K('Lv')), P('o', Opt(K('Lv')), ['null'])])
    ms.append(M('strenum', [lv, hl], [K('Lv'), K('Hl'), L(K('Lv'))],
                keys=['lv', 'o', 'hi'], scalars=[['str', 'hi'], ['str', 'lo'], S_42],
                strs=['hi'], qn=4, tn=4, qo=4, to=5))
    # ---- a string class derived from yatiml.String --------------------------------
    ys = C('Ys', kind='ystring', rejects=['abc'])
    hy = C('Hy', [P('s', K('Ys')), P('d', D(INT, K('Ys')), ['dict', []])])
    ms.append(M('ystr', [ys, hy], [K('Ys'), K('Hy'), L(K('Ys')),
                                   D(K('Ys'), K('Ys'))],
                keys=['s', 'd', 'red'], scalars=[S_RED, S_ABC, S_42],
                stags=['!Ys'], strs=['red'], qn=4, tn=5, qo=4, to=5))
    # ---- round 5 -------------------------------------------------------------------
    # a derived class whose only additional parameter starts with an underscore
    ub = C('Ub', [P('n', STR)])
    ud = C('Ud', [P('n', STR), P('_lv', INT)], bases=['Ub'])
    ms.append(M('underhier', [ub, ud], [K('Ub'), U(K('Ub'), INT)],
                keys=['n', '_lv'], scalars=[S_ABC, S_42], qn=5, tn=5,
                rootk='m', nodup=True))
    # an enum whose savorize fails
    er = C('Er', kind='enum', members=['red', 'blue'], sav=['raise_seasoning'])
    he = C('He', [P('e', K('Er'))])
    ms.append(M('enumsav', [er, he], [K('Er'), K('He'), L(K('Er'))],
                keys=['e'], scalars=[S_RED, S_42], qn=4, tn=4, rtypes=[]))
    # one scalar shared between a float and an int position
    fi = C('Fi', [P('f', FLOAT), P('i', INT)])
    ms.append(M('floatint', [fi], [K('Fi'), L(U(INT, FLOAT))], keys=['f', 'i'],
                scalars=[S_42, S_15], qn=5, tn=5, an=5, aliask=('s',),
                cyc=False, rtypes=[]))
    # an object whose LAST attribute is an enum member (PyYAML's alias_key)
    cz = C('Cz', kind='enum', members=['red', 'blue'])
    hz = C('Hz', [P('n', INT), P('c', K('Cz'))])
    ms.append(M('lastenum', [cz, hz], [K('Hz'), L(K('Hz'))], keys=['n', 'c'],
                scalars=[S_42, S_RED], strs=['red'], family='dump', qn=1, tn=1,
                qo=7, to=7))
    # seasoning helpers inside savorize: explored by the text fuzzer only
    # (family 'fuzz' is not part of any TLC configuration)
    it2 = C('It2', [P('id', STR), P('price', INT, ['int', '0']),
                    P('desc', STR, ['str', 'd'])])
    hq = C('Hq', [P('items', D(K('It2')))], recog=['require_attr', 'items'],
           sav=['seq_to_map', 'items', 'id'])
    hm = C('Hm', [P('items', L(K('It2')))], recog=['require_attr', 'items'],
           sav=['map_to_seq', 'items', 'id', 'price'])
    hi = C('Hi', [P('items', D(K('It2')))], recog=['require_attr', 'items'],
           sav=['map_to_index', 'items', 'id', 'price'])
    ms.append(M('season', [it2, hq, hm, hi], [K('Hq'), K('Hm'), K('Hi')],
                keys=['items', 'id', 'price', 'desc'], scalars=[S_42, S_ABC],
                family='fuzz', qn=1, tn=1, rtypes=[]))
    # a savorize hook that reads the value of a scalar attribute, and Unions
    # that contain Any (fuzz only)
    hv = C('Hv', [P('x', INT), P('f', FLOAT, ['float', '1.5'])],
           sav=['read_value', 'x', 'f'])
    ms.append(M('readval', [hv], [K('Hv'), Opt(ANY), L(U(ANY, INT))],
                keys=['x', 'f'], scalars=[S_42, S_15],
                family='fuzz', qn=1, tn=1, rtypes=[]))
    # unusual spellings of scalar values, for the value requirements of
    # UnknownNode (family 'req': explored by MC_Require only)
    ms.append(M('reqvals', [], [ANY], keys=['a', 'b'],
                scalars=[['bool', 'true'], ['bool', 'yes'], ['bool', 'false'],
                         ['bool', 'abc'], ['str', 'yes'], ['int', '42'],
                         ['int', '0x1F'], ['null', '~'], ['null', 'null']],
                family='req', qn=5, tn=5, rootk='m', rtypes=[]))
    # collection keys next to the queried attribute (UnknownNode helpers)
    ms.append(M('reqkeys', [], [ANY], keys=['a', 'b'],
                scalars=[S_42, S_ABC], qtags=('seq',), mtags=('map',),
                family='req', qn=6, tn=6, rootk='m', rtypes=[], ckeys=True))
    # an index (dict of objects that know their own key) with the documented
    # pair of seasoning helpers, items with default-value removal
    u4 = C('U4', kind='userstring')
    em = C('Em', [P('role', STR), P('hours', INT, ['int', '42']),
                  P('name', K('U4'), ['strlike', 'U4', 'dflt'])],
           swe=['remove_defaults', 'Em'])
    co = C('Co', [P('emps', D(K('Em')))],
           sav=['map_to_index', 'emps', 'name'],
           swe=['index_to_map', 'emps', 'name', 'hours'])
    ms.append(M('indexrt', [u4, em, co], [K('Co')],
                keys=['abc', 'emps', 'role', 'hours', 'name'],
                scalars=[S_42, S_ABC, S_7], strs=['abc'], family='dumpinv',
                qn=1, tn=1, qo=8, to=8))
    # a class whose _yatiml_extra parameter carries no annotation, and the
    # reserved name used as a key in the document
    ey = C('Ey', [P('a', INT)], extra=True, extraann='none')
    iz = C('Iz', [P('v', INT)])
    ms.append(M('extra2', [ey, iz], [K('Ey')], keys=['a', '_yatiml_extra', 'v'],
                scalars=[S_42], mtags=('map', '!Iz'), qn=7, tn=7, rootk='m',
                nodup=True, qtags=(), rtypes=[]))
    # one scalar shared between a Union[str, Sequence[string-like]] position and
    # a string-like position (the three sequence annotations must agree)
    us5 = C('Us5', kind='userstring')
    hu = C('Hu', [P('a', U(STR, L(K('Us5')))), P('b', K('Us5'))])
    ms.append(M('seqstr', [us5, hu], [K('Hu')], keys=['a', 'b'],
                scalars=[S_ABC], qn=5, tn=5, an=5, rootk='m', nodup=True,
                aliask=('s',), cyc=False, rtypes=[]))
    # ---- diamond inheritance: the common base's hooks must run once (round 6) ----
    ga = C('Ga', [P('x', INT)], sav=['none'], swe=['none'])
    gb = C('Gb', [P('x', INT)], bases=['Ga'], sav=['none'], swe=['none'])
    gc = C('Gc', [P('x', INT)], bases=['Ga'])
    gd = C('Gd', [P('x', INT), P('y', INT)], bases=['Gb', 'Gc'],
           sav=['none'], swe=['none'])
    ms.append(M('diamond', [ga, gb, gc, gd], [K('Ga'), K('Gd')],
                keys=['x', 'y'], scalars=[S_42], qn=5, tn=5, rootk='m',
                nodup=True, rtypes=[K('Gd')]))
    # ---- an abstract class whose only registered subclass is abstract too ------
    ab0 = C('Ab0', [], abstract=True)
    ab1 = C('Ab1', [], bases=['Ab0'], abstract=True)
    ht = C('Ht', [P('b', K('Ab0'))])
    ms.append(M('absonly', [ab0, ab1, ht], [K('Ht')], keys=['b', 'x'],
                scalars=[S_42], qn=5, tn=5, rootk='m', nodup=True, rtypes=[]))
    # ---- a subclass that lacks a required parameter of its concrete base --------
    sh = C('Sh', [P('kind', STR), P('n', INT)])
    sq = C('Sq', [P('side', INT)], bases=['Sh'])
    ms.append(M('lackparam', [sh, sq], [K('Sh'), L(K('Sh'))],
                keys=['kind', 'n', 'side'], scalars=[S_42, S_ABC], qn=5, tn=6,
                rtypes=[K('Sh')]))
    # ---- an item of a List[C] attribute shared with an Any attribute ------------
    iq = C('Iq', [P('v', INT)])
    hc = C('Hc', [P('l', L(K('Iq'))), P('u', ANY, ['null'])])
    ms.append(M('contany', [iq, hc], [K('Hc')], keys=['l', 'u', 'v'],
                scalars=[S_42], qn=7, tn=7, an=8, rootk='m', nodup=True,
                aliask=('m',), cyc=False, rtypes=[]))
    # ---- objects nested in objects of the same class, with a sweeten hook --------
    tg = C('Tg', [])
    tf = C('Tf', [P('v', INT), P('sub', Opt(K('Tg')), ['null'])], bases=['Tg'],
           swe=['set_attr', 'k', 'str', 'abc'])
    ms.append(M('treeswe', [tg, tf], [K('Tf')], keys=['v', 'sub', 'k'],
                scalars=[S_42], family='dump', qn=1, tn=1, qo=4, to=5,
                rtypes=[]))
    # ---- _yatiml_extra declared before the optional parameters --------------------
    xm = C('Xm', [P('a', INT), P('o', INT, ['int', '0'])], extra=True,
           extramid=True)
    ms.append(M('extramid', [xm], [K('Xm')], keys=['a', 'o', 'xk'],
                scalars=[S_42, S_7], qn=5, tn=6, qo=5, to=6, rootk='m',
                nodup=True))
    # ---- _yatiml_defaults (dump side only) must not reach the constructor ---------
    yd = C('Yd', [P('n', INT), P('t', Opt(L(INT)), ['null'])],
           ydefaults=[['t', ['list', [['int', '42']]]]])
    ms.append(M('ydefload', [yd], [K('Yd')], keys=['n', 't'], scalars=[S_42],
                qn=5, tn=6, rootk='m', nodup=True, dump=False, rtypes=[]))
    # ---- siblings and their base in one document, one of them with a hook ---------
    sb = C('Sb', [P('a', INT)])
    s1 = C('S1', [P('b', INT)], bases=['Sb'],
           sav=['set_attr', 'k', 'str', 'abc'])
    ms.append(M('sibhooks', [sb, s1], [L(K('Sb'))], keys=['a', 'b'],
                scalars=[S_42], qn=7, tn=7, rootk='q', nodup=True,
                mtags=('map',), qtags=('seq',), rtypes=[]))
    # ---- tagged collections in key position below Any --------------------------------
    ik = C('Ik', [P('v', INT)])
    ms.append(M('anykeys', [ik], [ANY], keys=['v'], scalars=[S_42],
                mtags=('map', '!Ik'), qtags=('seq',), qn=5, tn=6,
                rootk='m', rtypes=[], ckeys=True, dump=False))
    # ---- a tagged value under a keyword-only parameter ---------------------------------
    i2 = C('I2', [P('v', INT)])
    kt = C('Kt', [P('name', STR)], kwonly=['low=1'])
    ms.append(M('kwtag', [i2, kt], [K('Kt')], keys=['name', 'low', 'v'],
                scalars=[S_42, S_ABC], mtags=('map', '!I2'), qn=7, tn=7,
                rootk='m', nodup=True, qtags=(), rtypes=[], dump=False))
    # ---- set_value() in savorize, then a value the class refuses (positions) --------
    sw = C('Sw', kind='strlike', sav=['to_scalar', 'str', 'zz'], rejects=['zz'])
    hw = C('Hw', [P('label', STR), P('level', K('Sw'))])
    ms.append(M('tosc', [sw, hw], [K('Hw')], keys=['label', 'level'],
                scalars=[S_ABC], qn=5, tn=5, rootk='m', nodup=True, qtags=(),
                rtypes=[], dump=False))
    # ---- a recogniser that requires an attribute of a class type, two levels ----------
    i3 = C('I3', [P('v', INT)])
    m3 = C('M3', [P('i', K('I3'))])
    t3 = C('T3', [P('m', K('M3'))], recog=['require_attr_type', 'm', K('M3')])
    ms.append(M('reqnest', [i3, m3, t3], [K('T3')], keys=['m', 'i', 'v'],
                scalars=[S_42], qn=7, tn=7, rootk='m', nodup=True, qtags=(),
                rtypes=[], dump=False))
    # ---- Path and date attributes of a class (round 6) -------------------------
    pdc = C('Pd', [P('p', PATH), P('d', DATE), P('o', Opt(PATH), ['null'])])
    ms.append(M('pathdate', [pdc], [K('Pd')], rtypes=[K('Pd'), L(K('Pd'))], keys=['p', 'd', 'o'],
                scalars=[S_ABC, S_DATE, S_42], strs=['abc', '42'],
                stags=['!Path'], qn=6, tn=7, qo=5, to=6, an=5, nodup=True, rootk='m',
                aliask=('s',), cyc=False))
    # ---- containers nested in containers as attributes (round 6) ---------------
    dq = C('Dq', [P('x', INT)])
    dn = C('Dn', [P('m', D(L(K('Dq')))), P('o', Opt(L(INT)), ['null'])])
    ms.append(M('deepcont', [dq, dn], [K('Dn')], keys=['m', 'o', 'x', 'abc'],
                scalars=[S_42], strs=['abc'], qn=8, tn=9, rootk='m',
                nodup=True, qo=7, to=8))
    # default-value removal in a class that also takes _yatiml_extra (whose own
    # default must not shift the defaults of the attributes)
    dx = C('Dx', [P('n', STR), P('g', INT, ['int', '42']), P('o', INT, ['int', '0'])],
           extra=True, swe=['remove_defaults', 'Dx'])
    ms.append(M('defextra', [dx], [K('Dx')], keys=['n', 'g', 'o', 'xk'],
                scalars=[S_42, S_7, S_ABC], strs=['abc'], family='dump',
                qn=1, tn=1, qo=5, to=6))
    # ---- long and unusual strings as attributes of an object -------------------
    ls = C('Ls', [P('d', STR), P('e', STR, ['str', 'abc'])])
    ms.append(M('longstr', [ls], [K('Ls'), L(STR), D(STR)], keys=['d', 'e'],
                scalars=[S_ABC],
                strs=[LONG1, LONG2, 'a\x85b', 'a\u2028b', '\x85', 'abc',
                      ' lead', 'tab\there', 'trail ', 'x' * 200],
                family='dump', qn=1, tn=1, qo=3, to=4))
    # ---- dump / round-trip families ----------------------------------------
    ms.append(M('strings', [], [STR, ANY, PATH], keys=['abc'], scalars=[S_ABC],
                family='dump', qn=1, tn=1))
    ms.append(M('strcoll', [], [L(STR), D(STR), D(ANY), L(ANY)],
                keys=['abc', '42', 'true'], scalars=[S_ABC],
                strs=['abc', '42', '1e5', 'null', ''], family='dump',
                qn=1, tn=1))
    ms.append(M('scalarvals', [], [INT, FLOAT, BOOL, NULL, DATE, Opt(FLOAT),
                                   L(FLOAT), U(INT, STR), L(Opt(DATE))],
                keys=['abc'], scalars=[S_ABC], strs=['abc', '42'],
                family='dump', qn=1, tn=1))
    df = C('Df', [P('a', INT), P('n', Opt(INT), ['null']),
                  P('s', STR, ['str', 'abc']), P('i', INT, ['int', '42'])],
           swe=['remove_defaults', 'Df'])
    dg = C('Dg', [P('a', INT), P('b', BOOL, ['bool', 'true']),
                  P('t', Opt(STR), ['null']),
                  P('w', U(INT, STR), ['int', '42'])],
           swe=['remove_defaults', 'Dg'])
    ms.append(M('defaults', [df, dg], [K('Df'), K('Dg')],
                keys=['a', 'n', 's', 'i', 'b', 't', 'w'],
                scalars=[S_42, S_ABC], strs=['abc', '42', 'None'],
                family='dump', qn=1, tn=1, qo=6, to=7))
    iv = C('Iv', [P('my_attr', INT), P('o_p', STR, ['str', 'd'])],
           sav=['dashes_to_unders'], swe=['unders_to_dashes'])
    rn = C('Rn', [P('p', INT)], recog=['require_attr', 'pp'],
           sav=['rename', 'pp', 'p'], swe=['rename', 'p', 'pp'])
    pb = C('Pb', [P('txt', STR)], recog=['require_scalar_str'],
           sav=['scalar_to_mapping', 'txt'], swe=['mapping_to_scalar', 'txt'])
    ms.append(M('inverse', [iv, rn, pb],
                [K('Iv'), K('Rn'), K('Pb'), L(K('Pb')), L(K('Rn'))],
                keys=['my_attr', 'my-attr', 'o_p', 'o-p', 'p', 'pp', 'txt'],
                scalars=[S_42, S_ABC], strs=['abc', '42'], family='dump',
                qn=1, tn=1))
    return ms


# ---------------------------------------------------------------------------
# machine-generated class models ("gen" families).  The generator is seeded
# with FIXED numbers (not VERIF_SEED): the families are as fixed as the
# hand-written ones and every one of them has been validated on the
# unchanged tree; they widen "for all class models" beyond what a person
# thinks of.
# ---------------------------------------------------------------------------
GEN_SEEDS = list(range(1, 13))
import os as _os
if _os.environ.get('VERIF_GEN_SEEDS'):      # exploration aid, not used by the registered checks
    _a, _b = _os.environ['VERIF_GEN_SEEDS'].split('-')
    GEN_SEEDS = list(range(int(_a), int(_b) + 1))


def gen_model(seed):
    import random
    rnd = random.Random(1000 + seed)
    pre = 'G%d' % seed
    classes = []
    names = []
    # a scalar-like helper class (enum or string-like) half of the time
    helper = None
    if rnd.random() < 0.5:
        if rnd.random() < 0.5:
            helper = C(pre + 'e', kind='enum', members=['red', 'blue'])
        else:
            helper = C(pre + 's', kind=rnd.choice(['strlike', 'userstring']),
                       rejects=rnd.choice([[], ['abc']]))
        classes.append(helper)
    pnames = ['a', 'b', 'c', 'd_e', 'f']

    def leaf_type(avail):
        opts = [INT, STR, BOOL, Opt(INT), L(INT), D(INT), U(INT, STR), ANY,
                U(BOOL, INT), L(STR), Opt(STR)]
        if helper is not None:
            opts += [K(helper['name']), Opt(K(helper['name'])),
                     L(K(helper['name']))]
        for a in avail:
            opts += [K(a), L(K(a)), Opt(K(a))]
        return rnd.choice(opts)

    def default_for(t):
        k = t[0]
        if k == 'int':
            return ['int', rnd.choice(['0', '42'])]
        if k == 'str':
            return ['str', rnd.choice(['d', 'abc'])]
        if k == 'bool':
            return ['bool', 'true']
        if k == 'list':
            return ['list', []]
        if k == 'dict':
            return ['dict', []]
        if k == 'union':
            if NULL in t[1]:
                return ['null']
            return default_for(t[1][0])
        return ['null']         # Any / class: None (class types get Optional)

    def make_params(n, avail, base=None):
        ps = [dict(p) for p in (base or [])]
        used = {p['name'] for p in ps}
        free = [x for x in pnames if x not in used]
        rnd.shuffle(free)
        new = []
        for name in free[:n]:
            t = leaf_type(avail)
            if rnd.random() < 0.45:
                d = default_for(t)
                if d == ['null'] and t[0] not in ('any',) and \
                        not (t[0] == 'union' and NULL in t[1]):
                    t = Opt(t)
                new.append(P(name, t, d))
            else:
                new.append(P(name, t))
        # Python: parameters with defaults go last; at most two required
        # ones, so that small documents can be valid
        allp = ps + new
        req = [p for p in allp if p['required']]
        opt = [p for p in allp if not p['required']]
        while len(req) > 2:
            p = req.pop()
            t = p['type']
            d = default_for(t)
            if d == ['null'] and t[0] != 'any' and \
                    not (t[0] == 'union' and NULL in t[1]):
                t = Opt(t)
            opt.insert(0, P(p['name'], t, d))
        return req + opt

    nplain = rnd.choice([2, 3, 3, 4])
    shape = rnd.choice(['chain', 'fork', 'flat', 'absroot', 'absmid'])
    plain = []
    for i in range(nplain):
        nm = pre + 'ABCD'[i]
        bases, basep, abstract = [], None, False
        if i > 0 and shape in ('chain', 'absroot', 'absmid'):
            bases = [plain[i - 1]['name']]
        elif i > 0 and shape == 'fork' and i >= 1:
            bases = [plain[0]['name']]
        if bases:
            basep = [p for p in next(c for c in plain
                                     if c['name'] == bases[0])['params']]
        if (shape == 'absroot' and i == 0) or \
                (shape == 'absmid' and i == 1 and nplain > 2):
            abstract = True
        avail = [c['name'] for c in plain if c['name'] not in bases
                 and not c['bases'] and not c['abstract']
                 and shape == 'flat']
        ps = make_params(rnd.choice([1, 1, 2]) if bases else
                         rnd.choice([1, 2, 2, 3]), avail, basep)
        kw = {}
        r = rnd.random()
        if r < 0.12:
            ren = [p['name'] for p in ps if '_' not in p['name']]
            if ren:
                kw['sav'] = ['rename', ren[0] + ren[0], ren[0]]
        elif r < 0.2 and any('_' in p['name'] for p in ps):
            kw['sav'] = ['dashes_to_unders']
        elif r < 0.27:
            rq = [p['name'] for p in ps if p['required']]
            if rq:
                kw['recog'] = ['require_attr', rq[0]]
        extra = rnd.random() < 0.2
        plain.append(C(nm, ps, bases=bases, abstract=abstract, extra=extra,
                       **kw))
    classes += plain
    roots = [c for c in plain if not c['bases']]
    dts = []
    for c in roots:
        dts.append(K(c['name']))
    dts.append(L(K(roots[0]['name'])))
    if len(roots) > 1:
        dts.append(U(K(roots[0]['name']), K(roots[1]['name'])))
    else:
        dts.append(U(K(roots[0]['name']), INT))
    keys = sorted({p['name'] for c in plain for p in c['params']} |
                  {p['dname'] for c in plain for p in c['params']
                   if c.get('sav') == ['dashes_to_unders']})
    for c in plain:
        if c['sav'][0] == 'rename':
            keys.append(c['sav'][1])
    keys = sorted(set(keys)) + ['zz']
    scal = [S_42, S_ABC]
    if helper is not None and helper['kind'] == 'enum':
        scal.append(S_RED)
    if any(p['type'] in (BOOL, U(BOOL, INT)) for c in plain
           for p in c['params']):
        scal.append(S_TRUE)
    if any(NULL in p['type'][1] for c in plain for p in c['params']
           if p['type'][0] == 'union'):
        scal.append(S_NULL)
    tags = ['map'] + ['!' + c['name'] for c in plain[-2:]]
    # the round trip is claimed for the models without seasoning and without
    # a custom recogniser (a rename on loading has no inverse on dumping)
    hookfree = not any(c['hassav'] or c['hasrecog'] for c in classes)
    return M('gen%d' % seed, classes, dts, keys=keys, scalars=scal,
             mtags=tuple(tags), qn=5, tn=5, rootk='m', nodup=True,
             rtypes=dts if hookfree else [], family='gen',
             strs=['abc', 'red'], qo=4, to=5,
             note='generated, seed %d' % seed)


# core tags of the abstract documents ('!'-prefixed tags are local tags)
CORE_TAGS = ['str', 'int', 'float', 'bool', 'null', 'timestamp', 'seq',
             'map', 'set', 'binary', 'merge', 'python/object:os.system',
             'python/name:os.system', 'python/object/apply:os.system']


def ctor_table(scalars):
    """What PyYAML's SafeConstructor makes of (tag, val): an abstract value
    or an error class.  PyYAML is not the code under test."""
    import datetime
    import yaml
    out = []
    seen = set()
    for tag, val in scalars:
        if (tag, val) in seen:
            continue
        seen.add((tag, val))
        if tag.startswith('!') or tag in ('seq', 'map', 'set', 'merge') or \
                tag.startswith('python/'):
            continue
        node = yaml.ScalarNode('tag:yaml.org,2002:' + tag, val)
        ld = yaml.SafeLoader('')
        try:
            v = ld.construct_object(node, deep=True)
            if isinstance(v, bool):
                r = ['bool', 'true' if v else 'false']
            elif isinstance(v, int):
                r = ['int', repr(v)]
            elif isinstance(v, float):
                r = ['float', repr(v)]
            elif v is None:
                r = ['null']
            elif isinstance(v, datetime.datetime):
                r = ['datetime', v.isoformat()]
            elif isinstance(v, datetime.date):
                r = ['date', v.isoformat()]
            elif isinstance(v, str):
                r = ['str', v]
            elif isinstance(v, bytes):
                r = ['bytes', v.hex()]
            else:
                r = ['ERR', 'Other:' + type(v).__name__]
        except yaml.YAMLError:
            r = ['ERR', 'YamlErr']
        except Exception as e:  # noqa
            r = ['ERR', 'Other:' + type(e).__name__]
        finally:
            ld.dispose()
        out.append([tag, val, r])
    return out


# reference implicit tag of each value atom used anywhere as a plain scalar
IMPLICIT = {
    'abc': 'str', '42': 'int', '7': 'int', '1.5': 'float', 'true': 'bool',
    'null': 'null', '2020-01-02': 'timestamp', 'red': 'str', 'blue': 'str',
    'zz': 'str', 'dflt': 'str', 'd': 'str', 'x': 'str', '0': 'int',
    '1': 'int', '': 'null',
    '1e5': 'float', 'yes': 'str', '~': 'null', '.inf': 'float',
    '<<': 'merge', '0x1F': 'int', '1_000': 'int', '=': 'value', '0o7': 'str',
    '+.5': 'float', '1E+5': 'float', '.5': 'float', '-.0': 'float',
    '12e03': 'float', '-7': 'int', '-.inf': 'float', '.nan': 'float',
    '1.0e+20': 'float', '-0.0': 'float', '1.0e-07': 'float', 'false': 'bool',
    'True': 'bool', 'None': 'str',
    '2020-01-02 03:04:05': 'timestamp',
    '2021-12-31 23:59:58.250000': 'timestamp',
    '2020-01-02 03:04:05+01:00': 'timestamp',
}


POOL = {
    'str': ['abc', '42', 'true', 'null', 'None', 'True', '1e5', '2020-01-02', 'yes', '',
            '- x', 'a: b', '#c', ' lead', '1.5', '~', '.inf', '<<', '0x1F',
            "it's", 'multi\nline', '\u00e9\u4e2d', '1_000', '=', '0o7', '+.5',
            '1E+5', '.5', '-.0', '12e03'],
    'int': ['42', '-7', '0'],
    'float': ['1.5', '.inf', '-.inf', '.nan', '1.0e+20', '-0.0', '1.0e-07'],
    'bool': ['true', 'false'],
    'date': ['2020-01-02', '2020-01-02 03:04:05', '2021-12-31 23:59:58.250000',
             '2020-01-02 03:04:05+01:00'],
    'path': ['/tmp/x', 'rel/p', '42'],
}


def build(dimplicit=None):
    ms = models() + [gen_model(i) for i in GEN_SEEDS]
    vals = set()
    for k, lst in POOL.items():
        vals |= set(lst)
    vals |= {'xk', 'extra'}
    for m in ms:
        for tag, val in m['scalars'] + m['oddkeys']:
            vals.add(val)
        for k in m['keys']:
            vals.add(k)
        for k in m['strs']:
            vals.add(k)
    vals |= set(IMPLICIT)
    scalar_tags = ['str', 'int', 'float', 'bool', 'null', 'timestamp']
    pairs = [(t, v) for v in sorted(vals) for t in scalar_tags]
    implicit = []
    for v in sorted(vals):
        implicit.append([v, IMPLICIT.get(v, 'str')])
    undash = [[k, k.replace('-', '_')] for k in sorted(vals)]
    dimp = []
    for v in sorted(vals):
        dimp.append([v, (dimplicit or {}).get(v, IMPLICIT.get(v, 'str'))])
    return {
        'models': ms,
        'pool': POOL,
        'dimplicit': dimp,
        'coretags': CORE_TAGS,
        'ctor': ctor_table(pairs),
        'implicit': implicit,
        'undash': undash,
    }


if __name__ == '__main__':
    import json
    import sys
    json.dump(build(), sys.stdout, indent=1)
