"""Binding (B) for the load pipeline: every load the repository's own test
suite performs is recorded (class model extracted from the live Loader class,
composed document, outcome) and validated by TLC against YatimlLoad
(spec/Trace_Load.tla).  Only loads over auto-recognised class models without
hooks are validated (hooks with arbitrary bodies are not in the effect
vocabulary); the others are counted."""
import collections
import datetime
import enum
import inspect
import json
import os
import pathlib
import re
import subprocess
import sys
import typing

import yaml

PRE = 'tag:yaml.org,2002:'
FLOAT12 = re.compile(r'^[-+]?(\.[0-9]+|[0-9]+(\.[0-9]*)?)([eE][-+]?[0-9]+)?$')


def ref_implicit(value):
    """Reference tag of a plain scalar: YAML 1.2 for bool/float, PyYAML's
    pristine table for the rest."""
    if value in ('true', 'True', 'TRUE', 'false', 'False', 'FALSE'):
        return 'bool'
    if FLOAT12.match(value) and ('.' in value or 'e' in value.lower()):
        return 'float'
    if re.match(r'^[-+]?\.(inf|Inf|INF)$|^[-+]?\.(nan|NaN|NAN)$', value):
        return 'float'
    tbl = yaml.resolver.Resolver.yaml_implicit_resolvers
    lst = tbl.get(value[0] if value else '', []) + tbl.get(None, [])
    for tag, rx in lst:
        t = tag[len(PRE):]
        if t in ('bool', 'float'):
            continue
        if rx.match(value):
            return t
    return 'str'


class Unsupported(Exception):
    pass


def abstype(t, names):
    import yatiml
    if t is str:
        return ['str']
    if t is int:
        return ['int']
    if t is float:
        return ['float']
    if t is bool:
        return ['bool']
    if t is yatiml.bool_union_fix:
        return ['boolfix']
    if t is type(None) or t is None:
        return ['null']
    if t is datetime.date:
        return ['date']
    if t is pathlib.Path:
        return ['path']
    if t is typing.Any:
        return ['any']
    origin = getattr(t, '__origin__', None)
    args = getattr(t, '__args__', ())
    if origin in (list, collections.abc.Sequence,
                  collections.abc.MutableSequence):
        return ['list', abstype(args[0], names)]
    if origin in (dict, collections.abc.Mapping,
                  collections.abc.MutableMapping):
        return ['dict', abstype(args[0], names), abstype(args[1], names)]
    if origin is typing.Union:
        return ['union', [abstype(a, names) for a in args]]
    if inspect.isclass(t) and t in names:
        return ['class', names[t]]
    raise Unsupported('type %r' % (t,))


def extract_model(loader_cls, mid):
    import yatiml
    reg = loader_cls._registered_classes or {}
    # load_function registers the document type itself, even when it is a
    # built-in (int, str, ...) or its private placeholder: they play no role
    classes = [c for c in reg.values()
               if c.__module__ != 'builtins' and c.__name__ != '_AnyYAML'
               and c is not datetime.date]
    names = {}
    for c in classes:
        if c.__name__ in names.values():
            raise Unsupported('two classes named %s' % c.__name__)
        names[c] = c.__name__
    # unregistered bases that matter for isinstance / chains
    extra = []
    for c in classes:
        for b in c.__mro__[1:]:
            if b in names or b in (object, enum.Enum, str, yatiml.String,
                                   collections.UserString) or \
                    b.__module__ in ('abc', 'builtins', 'collections',
                                     'enum', 'typing'):
                continue
            if b.__name__ in names.values():
                raise Unsupported('name clash %s' % b.__name__)
            names[b] = b.__name__
            extra.append(b)
    out = []
    for c in extra + classes:
        for hook in ('_yatiml_recognize', '_yatiml_savorize'):
            if hook in c.__dict__:
                raise Unsupported('hook %s on %s' % (hook, c.__name__))
        if issubclass(c, enum.Enum):
            kind = 'enum'
        elif issubclass(c, str):
            kind = 'strlike'
        elif issubclass(c, collections.UserString):
            kind = 'userstring'
        elif issubclass(c, yatiml.String):
            kind = 'ystring'
        else:
            kind = 'plain'
        params = []
        has_extra = False
        if kind == 'plain':
            spec = inspect.getfullargspec(c.__init__)
            if spec.varargs or spec.varkw or spec.kwonlyargs:
                raise Unsupported('signature of %s' % c.__name__)
            nd = len(spec.defaults or ())
            first_opt = len(spec.args) - nd
            for i, a in enumerate(spec.args):
                if a == 'self':
                    continue
                if a == '_yatiml_extra':
                    has_extra = True
                    continue
                ann = spec.annotations.get(a, typing.Any)
                params.append({
                    'name': a, 'dname': a.replace('_', '-'),
                    'type': abstype(ann, names), 'annotated': a in
                    spec.annotations, 'required': i < first_opt,
                    'default': ['nodef'] if i < first_opt else ['null']})
        out.append({
            'name': c.__name__, 'pyname': c.__name__, 'kind': kind,
            'bases': [b.__name__ for b in c.__bases__ if b in names],
            'abstract': bool(inspect.isabstract(c) or
                             __import__('abc').ABC in c.__bases__),
            'absflavor': '', 'extra': has_extra, 'params': params,
            'members': [m.name for m in c] if kind == 'enum' else [],
            'rejects': [], 'hasrecog': False, 'recog': ['auto'],
            'hassav': False, 'sav': ['none'], 'hasswe': False,
            'swe': ['none'], 'initraises': False, 'raisesif': [], 'hasydef': False,
            'ydefaults': [], 'strmixin': False, 'extraann': 'odict',
            'yattrs': []})
    dt = abstype(loader_cls.document_type, names)
    model = {'id': mid, 'classes': out, 'reg': [c.__name__ for c in classes],
             'doctypes': [dt], 'keys': [], 'scalars': [], 'stags': [],
             'qtags': ['seq'], 'mtags': ['map'], 'oddkeys': [],
             'family': 'trace', 'note': '', 'qn': 1, 'tn': 1, 'strs': [],
             'dump': False, 'qo': 1, 'to': 1, 'an': 1, 'rootk': '',
             'nodup': False, 'aliask': [], 'cyc': False, 'rtypes': [],
             'qcap': 0}
    return model, dt, names


def abstract_doc(text):
    root = yaml.compose(text, Loader=yaml.SafeLoader)
    if root is None:
        return [], 0
    heap = []
    ids = {}

    def walk(n):
        if id(n) in ids:
            return ids[id(n)]
        me = {'k': '', 't': '', 'v': '', 'c': []}
        heap.append(me)
        idx = len(heap)
        ids[id(n)] = idx
        tag = n.tag[len(PRE):] if n.tag.startswith(PRE) else n.tag
        if isinstance(n, yaml.ScalarNode):
            plain = n.style is None
            # a plain scalar without explicit tag is typed by the reference
            # resolver; SafeLoader's own (YAML 1.1) verdict is discarded
            implicit11 = yaml.SafeLoader('').resolve(
                yaml.ScalarNode, n.value, (True, False))
            if plain and n.tag == implicit11:
                tag = ref_implicit(n.value)
            me.update(k='s', t=tag, v=n.value)
        elif isinstance(n, yaml.SequenceNode):
            me.update(k='q', t=tag)
            me['c'] = [walk(c) for c in n.value]
        else:
            me.update(k='m', t=tag)
            kids = []
            for k, v in n.value:
                kids.append(walk(k))
                kids.append(walk(v))
            me['c'] = kids
        return idx
    r = walk(root)
    return heap, r


def abstract_value(v, names, depth=0):
    if depth > 40:
        return ['deep']
    t = type(v)
    if t is bool:
        return ['bool', 'true' if v else 'false']
    if t is int:
        return ['int', repr(v)]
    if t is float:
        return ['float', 'nan' if v != v else repr(v)]
    if v is None:
        return ['null']
    if t is str:
        return ['str', v]
    if t is datetime.datetime:
        return ['datetime', v.isoformat()]
    if t is datetime.date:
        return ['date', v.isoformat()]
    if t is list:
        return ['list', [abstract_value(x, names, depth + 1) for x in v]]
    if t in (dict, collections.OrderedDict):
        flat = []
        for k, x in v.items():
            flat.append(abstract_value(k, names, depth + 1))
            flat.append(abstract_value(x, names, depth + 1))
        return ['dict', flat]
    if isinstance(v, pathlib.PurePath):
        return ['path', str(v)]
    if isinstance(v, enum.Enum):
        return ['enum', t.__name__, v.name]
    if isinstance(v, (str, collections.UserString)) or \
            type(v).__mro__[1].__name__ == 'String':
        return ['strlike', t.__name__, str(v)]
    attrs = {}
    for k, x in (vars(v).items() if hasattr(v, '__dict__') else ()):
        attrs[k] = abstract_value(x, names, depth + 1)
    return ['pyobj', t.__name__, attrs]


def value_matches(spec, real, depth=0):
    """Lenient comparison of the specification's value (constructor kwargs)
    with the real object (its attributes of the same names, where they
    exist)."""
    if depth > 40:
        return True
    k = spec[0]
    if k == 'obj':
        if not (isinstance(real, list) and real[0] == 'pyobj'
                and real[1] == spec[1]):
            return False
        attrs = real[2]
        kw = spec[2] if isinstance(spec[2], list) else []
        for i in range(0, len(kw), 2):
            name, sv = kw[i], kw[i + 1]
            if name == '_yatiml_extra':
                continue
            if name not in attrs:
                continue
            rv = attrs[name]
            if not value_matches(sv, rv, depth + 1):
                # constructors may normalise (None -> [] etc.): only a
                # different CLASS or scalar kind of a present value counts
                if sv[0] in ('null',) or rv[0] in ('null',):
                    continue
                return False
        return True
    if k == 'list':
        return (real[0] == 'list' and len(real[1]) == len(spec[1]) and
                all(value_matches(a, b, depth + 1)
                    for a, b in zip(spec[1], real[1])))
    if k in ('dict', 'odict'):
        return (real[0] == 'dict' and len(real[1]) == len(spec[1]) and
                all(value_matches(a, b, depth + 1)
                    for a, b in zip(spec[1], real[1])))
    if k in ('float',):
        return real[0] == 'float' and (real[1] == spec[1] or
                                       float(real[1]) == float(spec[1]))
    return list(spec) == list(real)[:len(spec)]


class LoadRecorder:
    def __init__(self):
        self.records = []
        self.skipped = collections.Counter()
        self.orig = None

    def install(self):
        rec = self
        self.orig = orig = yaml.load

        def load(stream, Loader=None, **kw):
            if Loader is None or not hasattr(Loader, '_registered_classes') \
                    or not isinstance(stream, str):
                return orig(stream, Loader, **kw) if Loader is not None \
                    else orig(stream, **kw)
            try:
                result = orig(stream, Loader)
            except Exception as e:
                rec.add(Loader, stream, 'ERR', e)
                raise
            rec.add(Loader, stream, 'VAL', result)
            return result
        yaml.load = load

    def uninstall(self):
        if self.orig is not None:
            yaml.load = self.orig
            self.orig = None

    def add(self, loader_cls, text, outcome, payload):
        try:
            model, dt, names = extract_model(loader_cls, 't%d' %
                                             len(self.records))
            heap, root = abstract_doc(text)
        except Unsupported as e:
            self.skipped[str(e).split(' ')[0]] += 1
            return
        except yaml.YAMLError:
            self.skipped['unparseable'] += 1
            return
        if outcome == 'VAL':
            val = abstract_value(payload, names)
            errclass = ''
        else:
            import yatiml
            val = None
            errclass = ('RecErr' if isinstance(payload,
                                               yatiml.RecognitionError)
                        else 'YamlErr' if isinstance(payload, yaml.YAMLError)
                        else 'Other:' + type(payload).__name__)
        self.records.append({'model': model, 'dt': dt, 'heap': heap,
                             'root': root, 'outcome': outcome,
                             'errclass': errclass, 'value': val,
                             'text': text})


def validate(V, tier):
    """Record the repository's tests, validate with TLC, compare values."""
    import catalogue
    from common import to_tlc, BUILD, REPO, VERIF, MachineryError, run_tlc
    out = os.path.join(BUILD, 'load-traces-repo.json')
    if os.path.exists(out):
        os.remove(out)
    env = dict(os.environ)
    env.update({'YATIML_VERIF': '1', 'VERIF_LOAD_TRACE_OUT': out,
                'PYTHONPATH': os.path.join(VERIF, 'harness') + os.pathsep +
                REPO, 'VERIF_REPO': REPO, 'PYTHONDONTWRITEBYTECODE': '1'})
    p = subprocess.run([sys.executable, '-m', 'pytest', '-q',
                        '-p', 'verif_pytest_plugin', '-p', 'no:cacheprovider',
                        '--no-cov', os.path.join(REPO, 'tests')],
                       cwd=REPO, env=env, stdout=subprocess.PIPE,
                       stderr=subprocess.STDOUT)
    if not os.path.exists(out):
        raise MachineryError('recording the repository tests failed: %s' %
                             p.stdout.decode()[-800:])
    # the documentation's example programs are the second source of real loads
    if os.path.isdir(os.path.join(REPO, 'docs', 'examples')):
        env.pop('VERIF_TRACE_OUT', None)
        subprocess.run([sys.executable,
                        os.path.join(VERIF, 'harness', 'run_examples.py'),
                        REPO], cwd=REPO, env=env, stdout=subprocess.PIPE,
                       stderr=subprocess.STDOUT)
    with open(out) as f:
        d = json.load(f)
    recs = d['records']
    V.notes['repo_loads_recorded'] = len(recs)
    V.notes['of_which_from_docs_examples'] = d.get('examples', {})
    V.notes['repo_loads_not_modelled'] = d['skipped']
    if not recs:
        V.notes['load_trace_validation'] = 'no load of the test suite is ' \
            'over a hook-free class model'
        return
    base = catalogue.build()
    atoms = set()
    core = set(base['coretags'])
    for r in recs:
        for n in r['heap']:
            if n['k'] == 's':
                atoms.add(n['v'])
            if not n['t'].startswith('!'):
                core.add(n['t'])
    atoms |= {''}
    tags = ['str', 'int', 'float', 'bool', 'null', 'timestamp']
    data = {
        'models': [r['model'] for r in recs],
        'pool': base['pool'], 'dimplicit': [],
        'coretags': sorted(core),
        'ctor': catalogue.ctor_table([(t, a) for a in sorted(atoms)
                                      for t in tags]),
        'implicit': [[a, ref_implicit(a)] for a in sorted(atoms)],
        'undash': [[a, a.replace('-', '_')] for a in sorted(atoms)],
        'traces': [{'mi': i + 1, 'dt': r['dt'], 'heap': r['heap'],
                    'root': r['root'], 'outcome': r['outcome']}
                   for i, r in enumerate(recs)],
    }
    path = os.path.join(BUILD, 'models_traces.json')
    with open(path, 'w') as f:
        f.write(to_tlc(json.dumps(data)))
    t = run_tlc('MC_Trace_Load', 'Trace_Load.cfg', workers=1,
                env={'YATIML_MODELS': path}, timeout=3600, name='trace-load')
    if t.violated:
        pth = os.path.join(V.replay_dir, 'trace-load-invariant.txt')
        with open(pth, 'w') as f:
            f.write(t.stdout[-8000:])
        V._violation_line(pth, 'a recorded load of the repository test suite '
                          'violates %s on the specification' % t.violated)
        return
    mi = re.search(r'<<\s*"TRACES"', t.stdout)
    if not mi:
        raise MachineryError('no verdict from load trace validation: %s' %
                             (t.error or t.stdout[-1500:]))
    verdict = t.stdout[mi.start():]
    j = verdict.find('\nError:')
    if j >= 0:
        verdict = verdict[:j]
    m1 = re.search(r'"REJECTED",\s*\{([^}]*)\}', verdict)
    m2 = re.search(r'"INCONCLUSIVE",\s*\{([^}]*)\}', verdict)
    rejected = [int(x) for x in re.findall(r'\d+', m1.group(1))] if m1 else []
    inconcl = [int(x) for x in re.findall(r'\d+', m2.group(1))] if m2 else []
    V.states += t.distinct
    V.transitions += t.generated
    bytid = {c['tid']: c for c in t.cases}
    nval = 0
    for i, r in enumerate(recs, 1):
        if i in rejected:
            pth = os.path.join(V.replay_dir, 'load-trace-%d.json' % i)
            with open(pth, 'w') as f:
                json.dump({'text': r['text'], 'dt': r['dt'],
                           'code': [r['outcome'], r['errclass'] or r['value']],
                           'spec': bytid.get(i, {}).get('res')}, f, indent=1,
                          default=repr)
            V._violation_line(pth, 'load(%r) as %s in the repository test '
                              'suite: the code %s, the specification %s' % (
                                  r['text'][:200], json.dumps(r['dt'])[:100],
                                  'loads it' if r['outcome'] == 'VAL' else
                                  'rejects it (%s)' % r['errclass'],
                                  json.dumps(bytid.get(i, {}).get('res'))[:200]))
            continue
        c = bytid.get(i)
        if c and c['res'][0] == 'VAL' and r['outcome'] == 'VAL' and \
                not c['shared']:
            nval += 1
            if not value_matches(c['res'][1], r['value']):
                pth = os.path.join(V.replay_dir, 'load-trace-%d.json' % i)
                with open(pth, 'w') as f:
                    json.dump({'text': r['text'], 'dt': r['dt'],
                               'code': r['value'], 'spec': c['res']}, f,
                              indent=1, default=repr)
                V._violation_line(pth, 'load(%r) in the repository test suite'
                                  ' built %s, the specification %s' % (
                                      r['text'][:200],
                                      json.dumps(r['value'], default=repr)[:300],
                                      json.dumps(c['res'][1])[:300]))
    V.traces += len(recs) - len(rejected) - len(inconcl)
    V.tlc_runs.append({'what': 'Trace_Load: loads of the repository test '
                       'suite validated against YatimlLoad',
                       'traces': len(recs), 'rejected': len(rejected),
                       'inconclusive': len(inconcl), 'values_compared': nval,
                       'distinct_states': t.distinct})
