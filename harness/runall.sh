#!/bin/sh
# runall.sh <tier>: run every check once, print one line each
cd "$(dirname "$0")/.."
T=${1:-quick}; export VERIF_SEED=${2:-0}
for p in 01 02 03 04 05 06 07 08 09 10 11 12 13 14 15 16 17 18; do
  s=$(date +%s)
  ./check C$p --tier $T > /tmp/runall-C$p.out 2>&1; rc=$?
  e=$(date +%s)
  echo "seed=$VERIF_SEED C$p $T rc=$rc $((e-s))s $(grep -c '^VIOLATION' /tmp/runall-C$p.out) violations; $(tail -1 /tmp/runall-C$p.out | cut -c1-160)"
  grep -m3 -A1 -E '^VIOLATION|MACHINERY' /tmp/runall-C$p.out | cut -c1-300
done
