#!/bin/sh
# seedbatch.sh: run the seed self-tests listed as seed:checks pairs
cd "$(dirname "$0")/.."
for item in "$@"; do
  s=${item%%:*}; c=${item#*:}
  ./harness/seedtest.py seeded/$s --checks $c 2>&1 | grep -E "^$s |rc=" | head -8
done
