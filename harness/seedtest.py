#!/venv/bin/python
"""Self-test of the machinery against a seeded breakage.

  harness/seedtest.py <seed dir> [--checks C01,C02|all] [--keep]

The seed dir holds patch.diff, demo.py and meta.json.  A scratch copy of
/repo's HEAD is made under /tmp, the demo must pass there, the patch must
apply, the repository's own tests must still pass, the demo must fail, and
then the named checks are run against the scratch copy (VERIF_REPO) with
their output and evidence redirected away from /verif."""
import argparse
import json
import os
import re
import shutil
import subprocess
import sys
import tempfile
import time

VERIF = os.path.dirname(os.path.dirname(os.path.abspath(__file__)))
ALL = ['C%02d' % i for i in range(1, 19)]


def sh(cmd, cwd=None, env=None, timeout=3600):
    p = subprocess.run(cmd, cwd=cwd, env=env, stdout=subprocess.PIPE,
                       stderr=subprocess.STDOUT, timeout=timeout)
    return p.returncode, p.stdout.decode('utf-8', 'replace')


def main():
    ap = argparse.ArgumentParser()
    ap.add_argument('seed')
    ap.add_argument('--checks', default='')
    ap.add_argument('--keep', action='store_true')
    ap.add_argument('--tier', default='quick')
    a = ap.parse_args()
    seed = os.path.abspath(a.seed)
    meta = json.load(open(os.path.join(seed, 'meta.json')))
    prop = meta['property']
    checks = ALL if a.checks == 'all' else \
        [c for c in a.checks.split(',') if c] or [prop]
    scratch = tempfile.mkdtemp(prefix='seedrun-')
    res = {'seed': seed, 'property': prop, 'checks': {}}
    try:
        rc, out = sh(['bash', '-c', 'git -C /repo archive HEAD | tar -x -C %s'
                      % scratch])
        if rc:
            raise SystemExit('cannot copy /repo: ' + out)
        env = dict(os.environ)
        env.update({'PYTHONPATH': scratch, 'PYTHONDONTWRITEBYTECODE': '1',
                    'PYTHONHASHSEED': '0'})
        demo = os.path.join(seed, 'demo.py')
        rc, out = sh(['/venv/bin/python', demo], cwd=scratch, env=env)
        res['demo_clean_rc'] = rc
        if rc != 0:
            res['demo_clean_out'] = out[-1500:]
        rc, out = sh(['git', 'apply', '--whitespace=nowarn',
                      os.path.join(seed, 'patch.diff')], cwd=scratch)
        res['apply_rc'] = rc
        if rc:
            res['apply_out'] = out[-1500:]
            print(json.dumps(res, indent=1))
            return 2
        rc, out = sh(['/venv/bin/python', '-m', 'pytest', '-q', '-p',
                      'no:cacheprovider', '--no-cov'], cwd=scratch, env=env)
        m = re.search(r'(\d+) passed', out)
        res['tests_rc'] = rc
        res['tests_passed'] = int(m.group(1)) if m else 0
        if rc:
            res['tests_out'] = out[-1500:]
        rc, out = sh(['/venv/bin/python', demo], cwd=scratch, env=env)
        res['demo_patched_rc'] = rc
        res['demo_patched_out'] = out[-800:]
        build = os.path.join(scratch, '_verif_build')
        cenv = dict(os.environ)
        cenv.update({'VERIF_REPO': scratch, 'VERIF_BUILD': build,
                     'VERIF_EVIDENCE': os.path.join(build, 'evidence')})
        cenv.pop('PYTHONPATH', None)
        for c in checks:
            t0 = time.time()
            rc, out = sh([os.path.join(VERIF, 'check'), c, '--tier', a.tier],
                         cwd=VERIF, env=cenv, timeout=7200)
            viol = [l for l in out.splitlines() if l.startswith('VIOLATION')]
            first = ''
            if viol:
                i = out.index(viol[0])
                first = out[i:i + 700]
            res['checks'][c] = {'rc': rc, 'violations': len(viol),
                                'first': first,
                                'wall_s': round(time.time() - t0, 1),
                                'tail': out[-400:] if rc == 2 else ''}
            print('%s %s: rc=%d violations=%d (%.0fs)' % (
                os.path.basename(seed), c, rc, len(viol), time.time() - t0))
            sys.stdout.flush()
    finally:
        if not a.keep:
            shutil.rmtree(scratch, ignore_errors=True)
    res['valid_seed'] = (res.get('demo_clean_rc') == 0 and
                         res.get('tests_rc') == 0 and
                         res.get('tests_passed', 0) >= 180 and
                         res.get('demo_patched_rc', 0) != 0)
    res['caught_by'] = [c for c, r in res['checks'].items() if r['rc'] == 1]
    print(json.dumps(res, indent=1))
    with open(os.path.join(seed, 'result.json'), 'w') as f:
        json.dump(res, f, indent=1)
    return 0


if __name__ == '__main__':
    sys.exit(main())
