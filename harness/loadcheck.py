"""The checks that rest on the load-pipeline specification
(spec/YatimlLoad.tla + spec/LoadRef.tla): C01 C02 C03 C04 C08 C10 C13 C17 C18.

One TLC exploration (cached per spec/catalogue hash) yields, for every
terminal state, the composed document, the predicted outcome, the predicted
hook/constructor history, the declarative reference outcome and the verdict
of every model-level property as evaluated by TLC.  Each property then
replays the behaviours into the real load function with its own relation.
"""
import fcntl
import hashlib
import common
import json
import os
import random

import catalogue
import loadreplay
import render
from common import (to_tlc, BUILD, CACHE, NCPU, SEED, SPEC, MachineryError, Verdict,
                    chunked, run_tlc)

MODELS_JSON = os.path.join(BUILD, 'models.json')

C02_MODELS = {'scalars', 'collections', 'plain', 'extra', 'dashed',
              'dashed_sav', 'enum_str', 'hier', 'hooks', 'ambig', 'optreq',
              'chain', 'absmix', 'unk', 'mixin', 'nested', 'dictkey',
              'lists', 'mergecls', 'extradef', 'absmid', 'dashextra', 'tree',
              'treex', 'index', 'savopt', 'underhier', 'floatint', 'pathdate',
              'deepcont', 'lackparam', 'extramid', 'diamond', 'absonly',
              'ydefload', 'sibhooks'}
C03_MODELS = {'hier', 'discrim', 'ambig', 'enum_str', 'plain', 'multi',
              'chain', 'absmix', 'mixin', 'inhrec', 'samename', 'absmid',
              'extradef', 'tree', 'underhier', 'diamond', 'absonly', 'lackparam',
              'sibhooks'}
C10_MODELS = {'hooks', 'dashed_sav', 'adversarial', 'parsed', 'mixin', 'multi',
              'samename', 'inhrec', 'index', 'savopt', 'savnest', 'enumsav',
              'diamond', 'sibhooks'}
C17_STRONG = {'plain', 'extra', 'dashed_sav', 'enum_str', 'collections',
              'scalars'}
C17_STRONG_LOAD = {'tree', 'savopt', 'reqnest'}
# class models whose hooks create no node of their own (set_value keeps the
# marks of the node it replaces): no error may cite a "generated node"
C17_NO_GENERATED = {'tosc', 'setval'}


def write_models(dimplicit=None):
    os.makedirs(BUILD, exist_ok=True)
    data = to_tlc(json.dumps(catalogue.build(dimplicit), sort_keys=True))
    tmp = MODELS_JSON + '.%d' % os.getpid()
    with open(tmp, 'w') as f:
        f.write(data)
    os.replace(tmp, MODELS_JSON)
    return hashlib.sha1(data.encode()).hexdigest()


def tlc_cases(cfg, module='MC_LoadRef', timeout=7200, extra_files=(),
              dimplicit=None, simulate=None):
    """Run (or reuse) a TLC exploration; returns (stats dict, cases)."""
    mh = write_models(dimplicit)
    h = hashlib.sha1((mh + str(simulate) + str(SEED if simulate else '')).encode())
    for fn in ('YatimlLoad.tla', 'LoadRef.tla', module + '.tla', cfg) + \
            tuple(extra_files):
        with open(os.path.join(SPEC, fn), 'rb') as f:
            h.update(f.read())
    key = h.hexdigest()[:20]
    cdir = CACHE
    os.makedirs(cdir, exist_ok=True)
    path = os.path.join(cdir, '%s-%s.json' % (os.path.splitext(cfg)[0], key))
    with open(path + '.lock', 'w') as lock:
        fcntl.flock(lock, fcntl.LOCK_EX)
        if os.path.exists(path):
            with open(path) as f:
                d = json.load(f)
            d['stats']['cached'] = True
            return d['stats'], d['cases']
        r = run_tlc(module, cfg, env={'YATIML_MODELS': MODELS_JSON},
                    timeout=timeout, name=os.path.splitext(cfg)[0],
                    simulate=simulate, depth=400 if simulate else None,
                    seed=SEED if simulate else None)
        if simulate:
            r.complete = True
        if r.error:
            raise MachineryError('TLC failed on %s: %s' % (cfg, r.error))
        stats = {'what': cfg, 'distinct_states': r.distinct,
                 'states_generated': r.generated, 'depth': r.depth,
                 'complete': r.complete, 'wall_s': round(r.wall, 1),
                 'violated': r.violated, 'cached': False}
        if r.violated:
            stats['counterexample'] = r.stdout[-6000:]
        for c in r.cases:
            if not isinstance(c['doc']['h'], list):
                c['doc']['h'] = []
            if 'log' in c and not isinstance(c['log'], list):
                c['log'] = []
            for n in c['doc']['h']:
                if not isinstance(n['c'], list):
                    n['c'] = []
            if 'dumped' in c:
                if not isinstance(c['dumped']['h'], list):
                    c['dumped']['h'] = []
                for n in c['dumped']['h']:
                    if not isinstance(n['c'], list):
                        n['c'] = []
        tmp = path + '.tmp'
        with open(tmp, 'w') as f:
            json.dump({'stats': stats, 'cases': r.cases}, f)
        os.replace(tmp, path)
        # older explorations of the same configuration are obsolete
        import glob
        for old in glob.glob(os.path.join(
                cdir, os.path.splitext(cfg)[0] + '-*.json')):
            if old != path:
                try:
                    os.remove(old)
                    os.remove(old + '.lock')
                except OSError:
                    pass
        return stats, r.cases


def add_stats(V, stats):
    V.states += stats['distinct_states']
    V.transitions += stats['states_generated']
    V.tlc_runs.append(stats)
    if stats['violated']:
        path = os.path.join(V.replay_dir, 'tlc-%s.txt' % stats['what'])
        with open(path, 'w') as f:
            f.write(stats.get('counterexample', ''))
        V._violation_line(path, 'model: structural invariant %s violated' %
                          stats['violated'])
    if not stats['complete']:
        raise MachineryError('TLC exploration incomplete: %s' % stats['what'])


# --------------------------------------------------------------- relations --
def docsize(c):
    return len(c['doc']['h'])


def unordered(v):
    """value with mappings as frozensets (C13 key-order comparison)."""
    if not isinstance(v, list) or not v:
        return v
    k = v[0]
    if k == 'list':
        return ('list', tuple(unordered(x) for x in v[1]))
    if k in ('dict', 'odict'):
        return (k, frozenset((json.dumps(v[1][i]), unordered(v[1][i + 1]))
                             for i in range(0, len(v[1]), 2)))
    if k == 'obj':
        return ('obj', v[1], frozenset((a, unordered(b))
                                       for a, b in v[2].items()))
    return tuple(v)


def cmp_outcome(c, o, flavor=0, order_free=False):
    """Observed outcome vs the specification's prediction."""
    res = c['res']
    if res[0] == 'VAL':
        if o['outcome'] != 'VAL':
            return 'spec: loads as %s; code: %s (%s)' % (
                json.dumps(res[1])[:200], o['errclass'],
                o['message'][:300].replace('\n', ' | '))
        ev = loadreplay.expected_value(c, flavor)
        if order_free:
            if unordered(ev) != unordered(o['value']):
                return 'value (order-free): spec %s, code %s' % (
                    json.dumps(ev)[:300], json.dumps(o['value'])[:300])
        elif ev != o['value']:
            return 'value: spec %s, code %s' % (
                json.dumps(ev)[:300], json.dumps(o['value'])[:300])
        return None
    if o['outcome'] != 'ERR':
        return 'spec: rejected (%s); code: loads as %s' % (
            res[1], json.dumps(o['value'])[:300])
    return None


def reverse_maps(doc):
    h = []
    for n in doc['h']:
        n = dict(n)
        if n['k'] == 'm':
            pairs = [n['c'][i:i + 2] for i in range(0, len(n['c']), 2)]
            n['c'] = [x for p in reversed(pairs) for x in p]
        h.append(n)
    return {'h': h, 'r': doc['r']}


def ref_case(c):
    """The case whose prediction is the declarative reference outcome."""
    ref = c['ref']
    r = ['VAL', ref[1]] if ref[0] == 'VAL' else ['ERR', ['RecErr'], [], []]
    d = dict(c)
    d['res'] = r
    return d


def f7(c, o):
    """Known finding F7 explains a property-level failure only where the
    faithful pipeline model itself predicts what the code did (the alias
    revisit is modelled); a disagreement between code and model is never F7."""
    if not c['dev']['alias']:
        return None
    return 'F7' if cmp_outcome(c, o) is None else None


def rel_c01(c):
    out = []
    if not c['inv']['TypeSafe']:
        out.append(('model', 'specification admits a non-conforming result: '
                    '%s' % json.dumps(c['res'])[:300], None))
    if not c['inv']['CtorArgsConform']:
        out.append(('model', 'specification admits a constructor call with '
                    'non-conforming arguments: %s' % json.dumps(c['log'])[:300],
                    None))
    o = loadreplay.observe(c)
    fid = f7(c, o)
    if o['outcome'] == 'VAL' and not o['conforms']:
        out.append(('impl', 'load(%r) as %s returned %s, which does not '
                    'conform to the type' % (o['text'], json.dumps(c['dt']),
                                             o['pyrepr']), fid))
    if o['bad_ctor_args']:
        out.append(('impl', 'load(%r): constructor received non-conforming '
                    'arguments %s' % (o['text'], o['bad_ctor_args']), fid))
    return out, 1


def rel_c02(c):
    out = []
    fid = 'F7' if c['dev']['alias'] else None
    if not c['inv']['MatchesReference']:
        out.append(('model', 'pipeline and declarative reference disagree: '
                    'pipeline %s, reference %s' % (
                        json.dumps(c['res'])[:200], json.dumps(c['ref'])[:200]),
                    fid))
    if not c['inv']['RejectsWithRecognitionError']:
        out.append(('model', 'rejected with %s' % c['res'][1], None))
    o = loadreplay.observe(c)
    d = cmp_outcome(c, o)
    if d:
        out.append(('impl', 'load(%r) as %s: %s' % (
            o['text'], json.dumps(c['dt']), d), None))
    elif o['outcome'] == 'ERR' and o['errclass'] != 'RecErr' and \
            set(c['res'][1]) <= {'RecErr'}:
        out.append(('impl', 'load(%r) as %s raised %s, not RecognitionError'
                    % (o['text'], json.dumps(c['dt']), o['errclass']), None))
    return out, 1


def rel_c03(c):
    out = []
    fid = 'F7' if c['dev']['alias'] else None
    if not c['inv']['MatchesReference']:
        out.append(('model', 'pipeline and order-free reference disagree: '
                    'pipeline %s, reference %s' % (
                        json.dumps(c['res'])[:200], json.dumps(c['ref'])[:200]),
                    fid))
    n = 0
    # every Union member order and registration order gives the one outcome
    # the order-free reference predicts
    rc = ref_case(c) if not fid else c
    for flavor, regperm in ((0, 0), (3, 0), (0, 1), (3, 1), (0, 2)):
        o = loadreplay.observe(c, flavor=flavor, regperm=regperm)
        n += 1
        d = cmp_outcome(rc, o, flavor)
        if d:
            out.append(('impl', 'load(%r) as %s with union order %s, '
                        'registration order %s: %s' % (
                            o['text'], json.dumps(c['dt']),
                            'reversed' if flavor == 3 else 'as declared',
                            ['as declared', 'reversed', 'rotated'][regperm],
                            d), fid))
            break
    return out, n


def rel_c04(c):
    out = []
    if not c['inv']['CtorArgsConform'] or not c['inv']['TypeSafe']:
        out.append(('model', 'specification admits an unchecked constructor '
                    'call or non-plain data below Any: %s' % json.dumps(
                        c['res'])[:300], 'F7' if c['dev']['alias'] else None))
    o = loadreplay.observe(c, canary=True)
    fid = f7(c, o)
    if o['bad_ctor_args']:
        out.append(('impl', 'load(%r): constructor received unchecked '
                    'arguments %s' % (o['text'], o['bad_ctor_args']), fid))
    if o['outcome'] == 'VAL' and not o['conforms']:
        out.append(('impl', 'load(%r) as %s returned %s: non-plain data below '
                    'an Any/untyped/extra position or a class the type does '
                    'not admit' % (o['text'], json.dumps(c['dt']),
                                   o['pyrepr']), fid))
    if o.get('canary'):
        out.append(('impl', 'load(%r) imported or called something named by '
                    'the document: %s' % (o['text'], o['canary']), None))
    # the constructor calls made are among those the specification makes
    sl = [loadreplay.fill_defaults(c, e) for e in loadreplay.spec_log(c)
          if e[0] == 'init']
    ol = [e for e in loadreplay.obs_log(o, None) if e[0] == 'init']
    if c['res'][0] == 'VAL' and o['outcome'] == 'VAL':
        if sl != ol:
            out.append(('impl', 'load(%r): constructor calls %s, specification'
                        ' %s' % (o['text'], json.dumps(ol)[:300],
                                 json.dumps(sl)[:300]), fid))
    elif not loadreplay.is_subsequence(ol, sl):
        out.append(('impl', 'load(%r): constructor calls %s are not among the '
                    'type-checked calls %s' % (o['text'], json.dumps(ol)[:300],
                                               json.dumps(sl)[:300]), fid))
    return out, 1


def rel_c08(c):
    out = []
    if not c['inv']['OnlyDocumentedErrors']:
        out.append(('model', 'specification lets %s escape' % c['res'][1],
                    None))
    o = loadreplay.observe(c)
    if o['outcome'] == 'ERR' and o['errclass'] not in ('RecErr', 'YamlErr'):
        fid = None
        out.append(('impl', 'load(%r) as %s raised %s: %s' % (
            o['text'], json.dumps(c['dt']), o['errclass'],
            o['message'][:200].replace('\n', ' | ')), fid))
    return out, 1


def scalar_ctor_culprit(c):
    """F5 classifier: the document contains a scalar whose text PyYAML's own
    scalar constructor for its core tag rejects."""
    cat = loadreplay.ctx()['cat']
    bad = {(t, v) for t, v, r in cat['ctor'] if r[0] == 'ERR'
           and r[1] != 'YamlErr'}
    return any(n['k'] == 's' and (n['t'], n['v']) in bad
               for n in c['doc']['h'])


def rel_c10(c):
    out = []
    if not c['inv']['HooksOnlyOfDefiningClasses']:
        out.append(('model', 'specification calls a hook of a class that does '
                    'not define it: %s' % json.dumps(c['log'])[:300], None))
    o = loadreplay.observe(c)
    fid = None
    for e in o['log']:
        if e[0] in ('sav', 'rec') and e[1] != e[2]:
            out.append(('impl', 'load(%r): %s hook defined in %s was called '
                        'for class %s' % (o['text'], e[0], e[1], e[2]), fid))
    sl = [loadreplay.fill_defaults(c, e) if e[0] == 'init' else e
          for e in loadreplay.spec_log(c)]
    ol = loadreplay.obs_log(o, None)
    if c['res'][0] == 'VAL' and o['outcome'] == 'VAL':
        if sl != ol:
            out.append(('impl', 'load(%r) as %s: hook/constructor order %s, '
                        'specification %s' % (
                            o['text'], json.dumps(c['dt']),
                            json.dumps(ol)[:400], json.dumps(sl)[:400]), fid))
    elif c['res'][0] == 'ERR' and o['outcome'] == 'ERR':
        if not loadreplay.is_subsequence(ol, sl):
            out.append(('impl', 'load(%r) as %s (failing): hook calls %s are '
                        'not a subsequence of the specification\'s %s' % (
                            o['text'], json.dumps(c['dt']),
                            json.dumps(ol)[:400], json.dumps(sl)[:400]), fid))
        sav_spec = [e for e in sl if e[0] == 'sav']
        sav_obs = [e for e in ol if e[0] == 'sav']
        if sav_spec != sav_obs:
            out.append(('impl', 'load(%r) as %s (failing): savorize calls %s, '
                        'specification %s' % (
                            o['text'], json.dumps(c['dt']),
                            json.dumps(sav_obs), json.dumps(sav_spec)), fid))
    else:
        d = cmp_outcome(c, o)
        out.append(('impl', 'load(%r) as %s: %s' % (
            o['text'], json.dumps(c['dt']), d), fid))
    # a SeasoningError surfaces as RecognitionError
    if o['outcome'] == 'ERR' and o['errclass'] == 'Other:SeasoningError':
        out.append(('impl', 'load(%r): SeasoningError escaped' % o['text'],
                    None))
    # the hooks that run do not depend on the order in which the classes
    # were registered
    n = 1
    if not out and len(loadreplay.ctx()['models'][c['model']]['reg']) > 1:
        for regperm in (1, 2):
            o2 = loadreplay.observe(c, regperm=regperm)
            n += 1
            ol2 = loadreplay.obs_log(o2, None)
            if (o2['outcome'], ol2) != (o['outcome'], ol):
                out.append(('impl', 'load(%r) as %s: with the classes '
                            'registered in %s order the outcome and hook calls '
                            'are %s %s, in declared order %s %s' % (
                                o['text'], json.dumps(c['dt']),
                                ['declared', 'reversed', 'rotated'][regperm],
                                o2['outcome'], json.dumps(ol2)[:300],
                                o['outcome'], json.dumps(ol)[:300]), fid))
                break
    return out, n


def with_boolfix(t):
    """the type with bool_union_fix inserted after bool in every Union that
    has bool and not yet bool_union_fix"""
    if not isinstance(t, list) or not t:
        return t
    if t[0] == 'union':
        ms = [with_boolfix(m) for m in t[1]]
        if ['bool'] in ms and ['boolfix'] not in ms:
            i = ms.index(['bool'])
            ms = ms[:i + 1] + [['boolfix']] + ms[i + 1:]
        return ['union', ms]
    if t[0] == 'list':
        return ['list', with_boolfix(t[1])]
    if t[0] == 'dict':
        return ['dict', t[1], with_boolfix(t[2])]
    return t


def has_dup_keys(doc):
    for n in doc['h']:
        if n['k'] == 'm':
            ks = [doc['h'][k - 1]['v'] for k in n['c'][0::2]
                  if doc['h'][k - 1]['k'] == 's']
            if len(ks) != len(set(ks)):
                return True
    return False


def rel_c13(c):
    out = []
    fid = 'F7' if c['dev']['alias'] else None
    if not c['inv']['KeyOrderIrrelevant']:
        out.append(('model', 'the reference depends on key order for %s'
                    % json.dumps(c['doc'])[:300], None))
    n = 0
    if c['nalias'] > 0:
        # aliased documents: where the first visit rewrites a shared node the
        # outcome is the known finding F7, but it must still not depend on the
        # order of the keys or on the style: compare the real outcomes with
        # each other
        if render.expand(c['doc']) is None:
            return out, 0
        base = None
        dup = has_dup_keys(c['doc'])
        for style, rev, flavor in (('flow', False, 0), ('flow', True, 0),
                                   ('block', False, 0), ('block', True, 0),
                                   ('flow', False, 1), ('flow', False, 2)):
            doc = reverse_maps(c['doc']) if rev else c['doc']
            if rev and dup:
                continue
            o = loadreplay.observe(c, style=style, doc=doc, flavor=flavor)
            n += 1
            # compared as values (frozensets), never through their repr,
            # whose order is not canonical
            cur = (o['outcome'], unordered(o['value'])
                   if o['outcome'] == 'VAL' else '')
            if base is None:
                base = (cur, o['text'])
            elif cur != base[0]:
                out.append(('impl', 'load as %s: %r gives %s but %r gives %s '
                            '(same document, keys reordered / other style / '
                            'other List-Sequence-MutableSequence flavour)'
                            % (json.dumps(c['dt']), base[1], base[0],
                               o['text'], cur), None))
                break
        return out, n
    variants = [('flow', 0, False, False), ('block', 0, False, False),
                ('quoted', 0, False, False), ('canonical', 0, False, False),
                ('flow', 1, False, False), ('flow', 2, False, False),
                ('flow', 0, True, False), ('flow', 0, False, True),
                ('block', 1, True, True)]
    base = None
    base_err = None
    dup = has_dup_keys(c['doc'])
    # bool_union_fix next to bool in a Union is documented to change nothing
    fixed_dt = with_boolfix(c['dt'])
    if fixed_dt != c['dt']:
        variants = variants + [('boolfix', 0, False, False)]
    for style, flavor, extra, rev in variants:
        if rev and dup:
            continue        # a repeated key makes the order meaningful
        doc = reverse_maps(c['doc']) if rev else c['doc']
        if style == 'boolfix':
            cc = dict(c)
            cc['dt'] = fixed_dt
            o = loadreplay.observe(cc, style='flow')
        else:
            o = loadreplay.observe(c, style=style, flavor=flavor, extra=extra,
                                   doc=doc)
        n += 1
        d = cmp_outcome(c, o, flavor, order_free=True)
        # a rejected document is rejected with the same class of error under
        # every rendering and annotation flavour
        if d is None and o['outcome'] == 'ERR':
            if base_err is None:
                base_err = o['errclass']
            elif o['errclass'] != base_err:
                d = 'rejected with %s, the flow-style load with %s' % (
                    o['errclass'], base_err)
        if d is None and not rev and base is not None and \
                o['outcome'] == 'VAL' and o['value'] != base:
            d = 'value differs from the flow-style load: %s vs %s' % (
                json.dumps(o['value'])[:200], json.dumps(base)[:200])
        if base is None and o['outcome'] == 'VAL':
            base = o['value']
        if d:
            out.append(('impl', 'load as %s of %r (style %s, generic flavour '
                        '%d, unrelated class %s, keys reversed %s): %s' % (
                            json.dumps(c['dt']), o['text'], style, flavor,
                            extra, rev, d), fid))
            break
    return out, n


def anchors_precede_aliases(doc):
    """After reordering keys the first occurrence of a shared node must still
    be a position where an anchor can be written (always true: the renderer
    anchors the first occurrence it meets), but a node must not become its own
    ancestor's earlier sibling in a way that changes sharing: sharing is by id,
    so any order is renderable."""
    return True


def rel_c17(c):
    out = []
    if not c['inv']['CitesSomething']:
        out.append(('model', 'specification: RecognitionError without any '
                    'cited node for %s' % json.dumps(c['doc'])[:300], None))
    if not c['inv']['CitesInsideDocument']:
        out.append(('model', 'specification cites a node outside the document',
                    None))
    if c['doc']['r'] == 0:
        return out, 0
    o = loadreplay.observe(c, style='block')
    if o['outcome'] != 'ERR' or o['errclass'] != 'RecErr':
        return out, 1
    nlines = o['text'].count('\n') + 1
    if not o['cited']:
        out.append(('impl', 'RecognitionError for %r as %s cites no position:'
                    ' %r' % (o['text'], json.dumps(c['dt']),
                             o['message'][:300]), None))
    if c['model'] in C17_NO_GENERATED and 'in "generated node"' in o['message']:
        out.append(('impl', 'RecognitionError for %r cites a position that is '
                    'not in the document ("generated node"): %r' % (
                        o['text'], o['message'][:300]), None))
    for line, col in o['cited']:
        if not (1 <= line <= nlines):
            out.append(('impl', 'RecognitionError for %r cites line %d, the '
                        'document has %d lines' % (o['text'], line, nlines),
                        None))
            break
    return out, 1


def rel_c18(c):
    out = []
    fid = 'F7' if c['dev']['alias'] else None
    if not c['inv']['MatchesReference']:
        out.append(('model', 'aliased document: pipeline %s, expanded '
                    'reference %s' % (json.dumps(c['res'])[:200],
                                      json.dumps(c['ref'])[:200]), fid))
    n = 1
    o = loadreplay.observe(c)
    if o['outcome'] == 'ERR' and o['errclass'] == 'Other:RecursionError':
        out.append(('impl', 'load(%r) exhausted the stack' % o['text'], None))
        return out, n
    ex = render.expand(c['doc'])
    if ex is None:
        # cyclic: must be rejected with an error
        if o['outcome'] != 'ERR':
            out.append(('impl', 'self-referential document %r loaded as %s'
                        % (o['text'], json.dumps(o['value'])[:200]), None))
        elif o['errclass'] not in ('RecErr', 'YamlErr'):
            out.append(('impl', 'self-referential document %r raised %s' % (
                o['text'], o['errclass']), None))
        return out, n
    oe = loadreplay.observe(c, doc=ex)
    n += 1
    same = (o['outcome'] == oe['outcome'] and
            (o['outcome'] == 'ERR' or o['value'] == oe['value']))
    # the faithful model's own verdict on transparency for this document
    spec_same = (c['res'][0] == c['ref'][0] and
                 (c['res'][0] == 'ERR' or c['res'][1] == c['ref'][1]))
    if not same:
        known = 'F7' if (c['dev']['alias'] and not spec_same and
                         cmp_outcome(c, o) is None) else None
        out.append(('impl', 'aliased %r -> %s but expanded %r -> %s' % (
            o['text'], json.dumps(o.get('value', o.get('errclass')))[:200],
            oe['text'], json.dumps(oe.get('value', oe.get('errclass')))[:200]),
            known))
    else:
        # and both are what the specification predicts for the expanded form
        d = cmp_outcome(ref_case(c), oe)
        if d:
            out.append(('impl', 'expanded document %r as %s: %s' % (
                oe['text'], json.dumps(c['dt']), d), None))
    return out, n


RELS = {'C01': rel_c01, 'C02': rel_c02, 'C03': rel_c03, 'C04': rel_c04,
        'C08': rel_c08, 'C10': rel_c10, 'C13': rel_c13, 'C17': rel_c17,
        'C18': rel_c18}

_pid = [None]


def _chunk(cases):
    rel = RELS[_pid[0]]
    out = []
    for c in cases:
        try:
            res, n = rel(c)
        except MachineryError as e:
            res, n = [('machinery', str(e)[:500], None)], 0
        out.append((res, n))
    return out


INV_OF = {
    'C01': ('TypeSafe', 'CtorArgsConform'),
    'C02': ('MatchesReference', 'RejectsWithRecognitionError'),
    'C03': ('MatchesReference',), 'C04': ('CtorArgsConform', 'TypeSafe'),
    'C08': ('OnlyDocumentedErrors',), 'C10': ('HooksOnlyOfDefiningClasses',),
    'C13': ('KeyOrderIrrelevant',),
    'C17': ('CitesSomething', 'CitesInsideDocument'),
    'C18': ('MatchesReference',),
}


def select(V, pid, cases, rnd):
    """Every case is judged at model level (the flags TLC evaluated); all
    cases that load, all with a model-level flag down or a deviation flag,
    and a seeded sample of the rejected ones (capped per class model) are
    replayed on the implementation."""
    cap = 4000 if V.tier == 'quick' else 120000
    keep, rest = [], {}
    for c in cases:
        if (c['res'][0] == 'VAL' or any(c['dev'].values()) or
                not all(c['inv'][k] for k in INV_OF[pid])):
            keep.append(c)
        else:
            rest.setdefault(c['model'], []).append(c)
    skipped = 0
    for m, lst in sorted(rest.items()):
        # small documents first (accept/reject boundaries live there), random
        # within a size class
        rnd.shuffle(lst)
        lst.sort(key=docsize)
        mcap = max(cap, loadreplay.ctx()['models'].get(m, {}).get('qcap', 0))
        if len(lst) > mcap:
            # half of the budget for the smallest documents, half spread
            # over the larger ones
            head, tail = lst[:mcap // 2], lst[mcap // 2:]
            lst = head + rnd.sample(tail, mcap - len(head))
            skipped += len(tail) - (mcap - len(head))
        keep += lst
    V.notes['replay_selection'] = (
        'all accepted documents + all flagged + up to %d rejected documents '
        'per class model; %d rejected documents judged at model level only'
        % (cap, V.notes.get('_skipped', 0) + skipped))
    V.notes['_skipped'] = V.notes.get('_skipped', 0) + skipped
    return keep


def replay(V, pid, cases, sample_filter=None):
    import multiprocessing
    _pid[0] = pid
    rnd = random.Random(SEED)
    cases = select(V, pid, list(cases), rnd)
    rnd.shuffle(cases)
    if len(cases) < 200:
        parts = [_chunk(cases)]
        chunks = [cases]
    else:
        chunks = chunked(cases, NCPU * 4)
        parts = common.fork_map(_chunk, chunks)
    for cs, part in zip(chunks, parts):
        for c, (res, n) in zip(cs, part):
            V.replayed += 1
            V.evaluations += n
            if docsize(c) >= 2:
                V.nontrivial.add(json.dumps([c['model'], c['dt'], c['doc']],
                                            sort_keys=True))
            for kind, detail, fid in res:
                if kind == 'machinery':
                    raise MachineryError(detail)
                V.violation({'pid': pid, 'kind': kind, 'case': c}, detail,
                            finding=fid)
            if docsize(c) >= 3 and (
                    len(V.samples) < 2 or c['res'][0] == 'VAL') and (
                    sample_filter is None or sample_filter(c)):
                V.sample({'model': c['model'], 'type': c['dt'],
                          'document': render.render(
                              c['doc'], loadreplay.ctx()['implicit'])[0],
                          'predicted': c['res'][:2]})


def replay_one(pid, path):
    with open(path) as f:
        rec = json.load(f)
    c = rec['case'].get('case')
    if rec['case'].get('pid') == 'C08F':
        write_models()
        r = rec['case']
        bad, _ = _fuzz_chunk(([r['text']], [(r['model'], r['dt'])]))
        for b in bad:
            print(b)
        return 1 if bad else 0
    if rec['case'].get('pid') == 'C10D':
        import dumpcheck
        write_models(dumpcheck.live_dimplicit())
        o, obj, b = dumpcheck.observe_dump(c)
        print('sweeten calls observed: %s; specification: %s' % (
            o.get('swelog'), c['dlog']))
        return 1 if [[e[0], e[1]] for e in o.get('swelog', [])] != \
            [[e[0], e[1]] for e in (c['dlog'] or [])] else 0
    if rec['case'].get('pid') == 'C17S':
        import dumpcheck
        write_models(dumpcheck.live_dimplicit())
        pid = 'C17S'
    else:
        write_models()
    res, _ = RELS[pid](c)
    for kind, detail, fid in res:
        print('%s: %s%s' % (kind, detail, ' [known %s]' % fid if fid else ''))
    return 1 if res else 0


# ------------------------------------------------------------------ driver --
PLAN = {
    # pid: list of (cfg stem, model filter or None)
    'C01': [('MC_LoadRef_main', None), ('MC_LoadRef_alias', None),
            ('MC_LoadRef_gen', None)],
    'C02': [('MC_LoadRef_main', C02_MODELS), ('MC_LoadRef_gen', None)],
    'C03': [('MC_LoadRef_main', C03_MODELS), ('MC_LoadRef_gen', None)],
    'C04': [('MC_LoadRef_main', None), ('MC_LoadRef_alias', None),
            ('MC_LoadRef_gen', None)],
    'C08': [('MC_LoadRef_main', None), ('MC_LoadRef_alias', None),
            ('MC_LoadRef_gen', None)],
    'C10': [('MC_LoadRef_main', C10_MODELS), ('MC_LoadRef_gen', None)],
    'C13': [('MC_LoadRef_main', C02_MODELS), ('MC_LoadRef_alias', None),
            ('MC_LoadRef_gen', None)],
    'C17': [('MC_LoadRef_main', None), ('MC_LoadRef_gen', None)],
    'C18': [('MC_LoadRef_alias', None)],
}

SIM_FOR = {
    'C01': ['MC_LoadRef_sim.cfg', 'MC_LoadRef_simalias.cfg'],
    'C02': ['MC_LoadRef_sim.cfg'], 'C03': ['MC_LoadRef_sim.cfg'],
    'C04': ['MC_LoadRef_sim.cfg'],
    'C08': ['MC_LoadRef_sim.cfg', 'MC_LoadRef_simalias.cfg'],
    'C10': ['MC_LoadRef_sim.cfg'], 'C13': ['MC_LoadRef_sim.cfg'],
    'C17': ['MC_LoadRef_sim.cfg'], 'C18': ['MC_LoadRef_simalias.cfg'],
}

RULES = {
    'C01': 'every terminal state of the TLC exploration (all class models of '
           'the catalogue x all documents up to the per-model occurrence '
           'bound, incl. the empty document and aliased documents), replayed '
           'through load(); distinct = distinct (model, type, document) with '
           'at least 2 nodes',
}


def run(pid, tier, replay=None, extra=None):
    if replay:
        return replay_one(pid, replay)
    V = Verdict(pid, tier)
    V.assumptions = [
        'PyYAML composer/constructor behave as modelled (SafeConstructor '
        'scalar table taken from PyYAML itself, not from yatiml)',
        'user hooks are drawn from the fixed effect vocabulary of the '
        'catalogue (harness/catalogue.py)',
        'documents are bounded by node occurrences per model (see tlc_runs); '
        'atoms are abstract representatives',
    ]
    for stem, models in PLAN[pid]:
        cfg = stem + ('.cfg' if tier == 'quick' else '_t.cfg')
        stats, cases = tlc_cases(cfg)
        add_stats(V, stats)
        if models is not None:
            cases = [c for c in cases if c['model'] in models]
        if not cases:
            raise MachineryError('no cases for %s from %s' % (pid, cfg))
        replay_cases(V, pid, cases)
    # random behaviours well beyond the exhaustive bound (TLC simulation mode:
    # documents of up to 12 / 10 occurrences), same relations
    if pid in SIM_FOR:
        num = 1500 if tier == 'quick' else 12000
        for cfg in SIM_FOR[pid]:
            stats, cases = tlc_cases(cfg, simulate='num=%d' % num)
            stats['what'] += ' (simulation, %d behaviours)' % len(cases)
            V.tlc_runs.append(stats)
            models = dict(PLAN[pid]).get(cfg.replace('sim', 'main')
                                         .replace('mainalias', 'alias')[:-4])
            if models is not None:
                cases = [c for c in cases if c['model'] in models]
            if cases:
                replay_cases(V, pid, cases)
    if extra:
        extra(V, tier)
    # complete at model level (TLC); the replay is complete only if no
    # rejected document was left to the model-level verdict alone
    V.exhaustive = V.notes.get('_skipped', 0) == 0
    return V.finish(RULES.get(pid, RULES['C01']))


def replay_cases(V, pid, cases):
    replay(V, pid, cases)


# ------------------------------------------------ C17: the strong claim -----
STRONG_MODELS = {'nested', 'plain', 'enum_str', 'optreq', 'lists'}


def typed_positions(b, doc, dt):
    """Walk a VALID alias-free document along the declared type.  Yields
    dicts: node, type (resolved leaf), key (key node id or 0), parent (id of
    the enclosing mapping / sequence or 0), cls (class of the parent
    mapping or None), name."""
    h = doc['h']
    out = []

    def resolve(t, n):
        """leaf type a valid node was loaded as"""
        if t[0] == 'union':
            nd = h[n - 1]
            for m in t[1]:
                r = resolve(m, n)
                if r is None:
                    continue
                k = r[0]
                if k == 'null' and nd['k'] == 's' and nd['t'] == 'null':
                    return r
                if k in ('str', 'int', 'float', 'bool') and nd['k'] == 's' \
                        and nd['t'] == k:
                    return r
                if k == 'list' and nd['k'] == 'q':
                    return r
                if k == 'dict' and nd['k'] == 'm':
                    return r
                if k == 'class':
                    kind = b.byname[r[1]]['kind']
                    if kind == 'plain' and nd['k'] == 'm':
                        return r
                    if kind != 'plain' and nd['k'] == 's' and \
                            nd['t'] == 'str':
                        return r
            return None
        return t

    def most_derived(cname, nd):
        """the registered class a valid mapping is loaded as where cname is
        expected: the unique most derived class whose required parameters
        are all present (None if that is not unique)"""
        keys = {h[k - 1]['v'] for k in nd['c'][0::2]}
        reg = set(b.model['reg'])

        def subs(x):
            return [d['name'] for d in b.model['classes']
                    if x in d['bases'] and d['name'] in reg]

        def matches(x):
            d = b.byname[x]
            return (not d['abstract'] and d['kind'] == 'plain' and
                    not d['hasrecog'] and
                    all(p['name'] in keys for p in d['params']
                        if p['required']))

        def best(x):
            found = []
            for y in subs(x):
                found += best(y)
            if not found and matches(x):
                found = [x]
            return found
        if any(b.byname[y]['hasrecog'] for y in [cname] + subs(cname)):
            return cname
        f = best(cname)
        return f[0] if len(f) == 1 else None

    def walk(n, t, key, parent, cls, name):
        r = resolve(t, n)
        if r is not None and r[0] == 'class' and h[n - 1]['k'] == 'm' and \
                b.byname[r[1]]['kind'] == 'plain':
            md = most_derived(r[1], h[n - 1])
            r = ['class', md] if md else None
        out.append({'node': n, 'type': r, 'decl': t, 'key': key,
                    'parent': parent, 'cls': cls, 'name': name})
        if r is None:
            return
        nd = h[n - 1]
        if r[0] == 'list' and nd['k'] == 'q':
            for c in nd['c']:
                walk(c, r[1], 0, n, None, None)
        elif r[0] == 'dict' and nd['k'] == 'm':
            for j in range(0, len(nd['c']), 2):
                walk(nd['c'][j + 1], r[2], nd['c'][j], n, None, None)
        elif r[0] == 'class' and nd['k'] == 'm':
            c = b.byname[r[1]]
            ptypes = {p['name']: p['type'] for p in c['params']}
            for j in range(0, len(nd['c']), 2):
                kn = h[nd['c'][j] - 1]
                if kn['v'] in ptypes:
                    walk(nd['c'][j + 1], ptypes[kn['v']], nd['c'][j], n,
                         r[1], kn['v'])
    walk(doc['r'], dt, 0, 0, None, None)
    return out


def corruptions(b, doc, dt):
    """Single-point corruptions with their site.  Each: (kind, new doc,
    site node ids whose lines are acceptable, key name to be named or None)"""
    import copy
    res = []
    pos = typed_positions(b, doc, dt)
    h = doc['h']
    for p in pos:
        n, r = p['node'], p['type']
        if r is None:
            continue
        nd = h[n - 1]
        # acceptable places: the node, its key, the start of the enclosing
        # MAPPING (for an item of a list that is the mapping holding the
        # list, with the key the list stands under) - not the list itself
        sites = [x for x in (n, p['key']) if x]
        q = p
        while q is not None and q['parent']:
            par = [z for z in pos if z['node'] == q['parent']]
            if not par:
                break
            if h[q['parent'] - 1]['k'] == 'm':
                sites.append(q['parent'])
                break
            q = par[0]
            if q['key']:
                sites.append(q['key'])
        if r[0] in ('int', 'str', 'float', 'bool') and nd['k'] == 's' and \
                p['decl'][0] != 'union' and p['decl'][0] != 'any':
            d = copy.deepcopy(doc)
            if r[0] == 'str':
                d['h'][n - 1].update(t='int', v='42')
            else:
                d['h'][n - 1].update(t='str', v='abc')
            res.append(('wrong scalar type', d, sites, None))
        if r[0] == 'class' and b.byname[r[1]]['kind'] == 'enum' and \
                p['decl'][0] != 'union':
            d = copy.deepcopy(doc)
            d['h'][n - 1].update(t='str', v='zz')
            res.append(('unknown enum member', d, sites, None))
            d = copy.deepcopy(doc)
            d['h'][n - 1].update(t='bool', v='false')
            res.append(('unknown enum member (looks like a boolean)', d,
                        sites, None))
        if r[0] == 'class' and b.byname[r[1]]['kind'] == 'plain' and \
                nd['k'] == 'm':
            c = b.byname[r[1]]
            # the statement: the line of the corrupted key or of the start of
            # the enclosing mapping, which is this class mapping itself
            msites = [n]
            for j in range(0, len(nd['c']), 2):
                kid = nd['c'][j]
                kname = h[kid - 1]['v']
                prm = [q for q in c['params'] if q['name'] == kname]
                if prm and prm[0]['required']:
                    d = copy.deepcopy(doc)
                    d['h'][n - 1]['c'] = nd['c'][:j] + nd['c'][j + 2:]
                    res.append(('dropped required key', d, msites, kname))
                if prm:
                    d = copy.deepcopy(doc)
                    d['h'][kid - 1]['v'] = kname + 'x'
                    res.append(('misspelt key', d, msites + [kid], None))
                rf = c.get('raisesif')
                if prm and rf and rf[0] == kname and \
                        h[nd['c'][j + 1] - 1]['k'] == 's':
                    d = copy.deepcopy(doc)
                    d['h'][nd['c'][j + 1] - 1].update(t=rf[1][0], v=rf[1][1])
                    res.append(('value refused by the constructor', d,
                                [n, kid, nd['c'][j + 1]], None))
            if not c['extra']:
                d = copy.deepcopy(doc)
                d['h'].append({'k': 's', 't': 'str', 'v': 'zzz', 'c': []})
                d['h'].append({'k': 's', 't': 'int', 'v': '42', 'c': []})
                d['h'][n - 1]['c'] = nd['c'] + [len(d['h']) - 1, len(d['h'])]
                res.append(('added key', d, msites + [len(d['h']) - 1], 'zzz'))
    if any(set(d['bases']) & set(b.model['reg']) for d in b.model['classes']):
        # with registered bases / derived classes another class may offer an
        # alternative reading of a corrupted mapping: only a value that the
        # constructor of the recognised class refuses is within the claim
        res = [r for r in res if r[0] == 'value refused by the constructor']
    return res


def rel_c17_strong(c):
    ctx = loadreplay.ctx()
    b = loadreplay.built(c['model'])
    out = []
    n = 0
    doc = c['doc']
    if render.expand(doc) is None or c.get('nreuse', 0):
        return out, 0
    base = loadreplay.observe(c, style='block')
    if base['outcome'] != 'VAL':
        return out, 0           # not a valid document to start from
    for kind, d, sites, keyname in corruptions(b, doc, c['dt']):
        cc = dict(c)
        cc['doc'] = d
        o = loadreplay.observe(cc, style='block')
        n += 1
        if o['outcome'] != 'ERR':
            continue            # the corruption happens to be valid: no claim
        if o['errclass'] != 'RecErr':
            continue            # C08's business
        lines = o['lines']
        ok_lines = {lines.get(s) for s in sites if lines.get(s)}
        cited = {ln for ln, _ in o['cited']}
        what = '%s in %r as %s' % (kind, o['text'], json.dumps(c['dt']))
        if not cited:
            out.append(('impl', '%s: the message cites no position: %r' % (
                what, o['message'][:300]), None))
        elif not (cited & ok_lines):
            out.append(('impl', '%s: cites line(s) %s; the corrupted node, its '
                        'key and the enclosing mapping are on line(s) %s: %r'
                        % (what, sorted(cited), sorted(ok_lines),
                           o['message'][:400]), None))
        if keyname and keyname not in o['quoted']:
            out.append(('impl', '%s: the message does not name key "%s": %r'
                        % (what, keyname, o['message'][:400]), None))
    return out, n


RELS['C17S'] = rel_c17_strong


def c10_sweeten(V, tier):
    """The dumping half of C10: sweeten calls of the real Representer against
    the history variable of RoundTrip, for the families with hooks."""
    import dumpcheck
    stats, cases = tlc_cases(
        'MC_RoundTrip_q.cfg' if tier == 'quick' else 'MC_RoundTrip_t.cfg',
        module='MC_RoundTrip', extra_files=('RoundTrip.tla',),
        dimplicit=dumpcheck.live_dimplicit())
    add_stats(V, stats)
    cases = [c for c in cases if c['model'] in
             ('hooks', 'mixin', 'multi', 'inverse', 'defaults', 'parsed',
              'dashed_sav') and isinstance(c['oh'], list)]
    n = 0
    for c in cases:
        o, obj, b = dumpcheck.observe_dump(c)
        if 'dump_exc' in o:
            continue
        n += 1
        sl = [[e[0], e[1]] for e in (c['dlog'] if isinstance(c['dlog'], list)
                                     else [])]
        ol = [[e[0], e[1]] for e in o['swelog']]
        what = 'dumps(%s)' % json.dumps(c['value'])[:200]
        if sl != ol:
            V.violation({'pid': 'C10D', 'case': c},
                        '%s: sweeten calls %s, specification %s' % (
                            what, ol, sl))
        for e in o['swelog']:
            if e[1] != e[2]:
                V.violation({'pid': 'C10D', 'case': c},
                            '%s: sweeten of %s called for %s' % (
                                what, e[1], e[2]))
    V.replayed += n
    V.evaluations += n
    V.notes['sweeten_behaviours'] = n


def c17_strong(V, tier):
    import dumpcheck
    stats, cases = tlc_cases(
        'MC_RoundTrip_q.cfg' if tier == 'quick' else 'MC_RoundTrip_t.cfg',
        module='MC_RoundTrip', extra_files=('RoundTrip.tla',),
        dimplicit=dumpcheck.live_dimplicit())
    add_stats(V, stats)
    cases = [c for c in cases if c['model'] in STRONG_MODELS
             and c['res'][0] == 'VAL' and c['dex'] == ''
             and isinstance(c['oh'], list)]
    # ... and the accepted documents of the load exploration for the families
    # that have no dump side (nested objects of one class, failing hooks)
    stats2, cases2 = tlc_cases('MC_LoadRef_main.cfg' if tier == 'quick'
                               else 'MC_LoadRef_main_t.cfg')
    cases += [c for c in cases2 if c['model'] in C17_STRONG_LOAD
              and c['res'][0] == 'VAL']
    for c in cases:
        c.setdefault('dev', {'alias': False})
        c.setdefault('inv', {})
    if not cases:
        raise MachineryError('no valid documents for the strong claim')
    import multiprocessing
    _pid[0] = 'C17S'
    chunks = chunked(cases, NCPU * 2)
    parts = common.fork_map(_chunk, chunks)
    for cs, part in zip(chunks, parts):
        for c, (res, n) in zip(cs, part):
            V.replayed += 1
            V.evaluations += n
            for kind, detail, fid in res:
                if kind == 'machinery':
                    raise MachineryError(detail)
                V.violation({'pid': 'C17S', 'kind': kind, 'case': c}, detail,
                            finding=fid)
    V.notes['strong_claim_documents'] = len(cases)


# ------------------------------------------------ C08: text-level fuzzing ----
TOKENS = ['- ', ': ', '? ', ', ', '[', ']', '{', '}', '&a ', '*a', '!A ',
          '!!int ', '!!str ', '!!set ', '!!binary ', '!!omap ', '!!pairs ',
          '!!python/object:os.system ', '!Unknown ', '| ', '> ', '"', "'",
          '#', '\n', '\n  ', '\n    ', ' ', '<<', '=', '~', 'null', 'true',
          '1', '1.5', '1e5', '.inf', '0x1F', '2020-01-02', 'x', 'a', 'b',
          'y', 'abc', '---', '...', '%YAML 1.1', '\t', '﻿', '\x00',
          'é', ' ', '\U0001F600', '\\', '- - ', 'x: 1', 'a: b',
          '{x: 1}', '[1, 2]', '&a [*a]', '? [a]\n: b', 'x: 1\nx: 2',
          '<<: {x: 1}', '<<: *a', '- !!python/name:os.system',
          '!!timestamp 2001-13-45', '0o7', '1_000', '1:30', '!!float x']


def fuzz_texts(rnd, n, seeds):
    out = []
    for _ in range(n):
        r = rnd.random()
        if r < 0.5:
            k = rnd.randint(1, 12)
            out.append(''.join(rnd.choice(TOKENS) for _ in range(k)))
        elif r < 0.8 and seeds:
            s = rnd.choice(seeds)
            for _ in range(rnd.randint(1, 3)):
                i = rnd.randint(0, len(s))
                op = rnd.random()
                if op < 0.4:
                    s = s[:i] + rnd.choice(TOKENS) + s[i:]
                elif op < 0.7:
                    s = s[:i] + s[i + rnd.randint(1, 3):]
                else:
                    j = rnd.randint(0, len(s))
                    s = s[:i] + s[j:j + 4] + s[i:]
            out.append(s)
        else:
            k = rnd.randint(0, 10)
            out.append(''.join(chr(rnd.choice(
                [rnd.randint(0, 0x7f), rnd.randint(0x80, 0x2ff),
                 rnd.randint(0x2000, 0x206f), rnd.randint(0x10000, 0x1ffff),
                 0xfeff, 0x85, 0xd800, 10, 32, 58, 45]))
                for _ in range(k)))
    return out


def _fuzz_chunk(args):
    texts, combos = args
    import yaml
    ctx = loadreplay.ctx()
    y = ctx['yatiml']
    bad = []
    n = 0
    import sys
    sys.setrecursionlimit(10000)
    for t in texts:
        # bounded nesting only (the property's domain)
        if max((t.count(c) for c in '[{'), default=0) > 20:
            continue
        for mid, dt in combos:
            n += 1
            fn = loadreplay.load_fn(mid, dt)
            try:
                fn(t)
            except (y.RecognitionError, yaml.YAMLError):
                pass
            except Exception as e:  # noqa
                bad.append((t, mid, dt, type(e).__name__, str(e)[:200]))
    return bad, n


# documents for the classes whose savorize uses the seasoning helpers
SEASON_SEEDS = [
    'items:\n- id: a\n  price: 1\n- id: b\n',
    'items:\n- id: [a]\n  price: 1\n',
    'items:\n- id: {a: b}\n',
    'items:\n- id: !!int abc\n',
    'items:\n- id: 0x_\n',
    'items:\n- id: !!float ""\n',
    'items:\n- id: !!bool maybe\n',
    'items:\n- id: 12\n- id: ~\n',
    'items:\n- id: a\n- id: a\n',
    'items:\n- price: 1\n',
    'items:\n- a\n- [b]\n',
    'items:\n  a: {price: 1}\n  b: 2\n',
    'items:\n  a: 1\n  ? [k]\n  : 2\n',
    'items:\n  a: {id: x, price: 1}\n',
    'items:\n  a: [1]\n',
    'items: {a: {price: 1}, a: {price: 2}}\n',
    'items: {1: {price: 1}, ~: 3}\n',
    'items: &i {a: *i}\n',
    'items: abc\n',
    'items: []\n',
    'items: {}\n',
    # for the hook that reads scalar values (family readval)
    'x: !!int abc\n', 'x: 0x_\n', 'x: 1\nf: !!float ""\n',
    'x: !!bool maybe\n', 'x: !!int ""\n', 'x: 1\nf: !!float x.y\n',
    '[1]\n', '~\n', '- ~\n- 1\n- a\n',
    # keys that look like format fields, at class positions
    'x{0}: 1\n', '"{}": 1\nx: 2\n', '${a}: 3\nx: 1\n', 'x: 1\ny{z}: 2\n',
    '{"{x}": 1, y: 2}\n', 'a{: 1\n', 'a}: 1\n', '"{0.__class__}": 1\n',
    'items: {"{id}": {price: 1}}\n', '- x: 1\n  "{}": 2\n',
    # paths with a tilde
    '~nosuchuser12345/x\n', '"~~"\n', '"~ghost_xyz"\n', '~/x\n',
    'p: ~nosuchuser12345/run1\nd: 2020-01-02\n',
]


def c08_fuzz(V, tier):
    """Text-level exploration beyond the specification's abstract documents:
    token soup from YAML indicators, mutated valid documents, arbitrary
    unicode - the only observable is the class of the escaping exception."""
    import multiprocessing
    rnd = random.Random(SEED + 8)
    ctx = loadreplay.ctx()
    _, cases = tlc_cases('MC_LoadRef_main.cfg' if tier == 'quick'
                         else 'MC_LoadRef_main_t.cfg')
    seeds = []
    for c in rnd.sample(cases, min(400, len(cases))):
        seeds.append(render.render(c['doc'], ctx['implicit'],
                                   rnd.choice(['flow', 'block']))[0])
    seeds += SEASON_SEEDS
    texts = fuzz_texts(rnd, 6000 if tier == 'quick' else 150000, seeds)
    texts += SEASON_SEEDS
    combos = []
    for mid in ('scalars', 'collections', 'plain', 'extra', 'enum_str',
                'hier', 'adversarial', 'parsed', 'raising', 'dashed_sav',
                'season', 'index', 'readval'):
        dts = ctx['models'][mid]['doctypes']
        combos += [(mid, dt) for dt in dts[:3]]
    combos += [('scalars', ['path']), ('pathdate', ['class', 'Pd']),
               ('scalars', ['list', ['path']])]
    chunks = [(c, combos) for c in chunked(texts, NCPU * 2)]
    parts = common.fork_map(_fuzz_chunk, chunks)
    total = 0
    for bad, n in parts:
        total += n
        for t, mid, dt, cls, msg in bad:
            V.violation({'pid': 'C08F', 'text': t, 'model': mid, 'dt': dt},
                        'load(%r) as %s (model %s) raised %s: %s' % (
                            t, json.dumps(dt), mid, cls, msg))
    V.evaluations += total
    V.notes['text_fuzz_loads'] = total
    V.notes['text_fuzz_texts'] = len(texts)
