"""pytest plugin: run the repository's own tests under the observation shim
and write the recorded traces (YATIML_VERIF=1, VERIF_TRACE_OUT=<file>)."""
import json
import os
import sys

_tr = {}


def pytest_configure(config):
    import shim
    if not shim.enabled():
        return
    import yatiml
    if os.environ.get('VERIF_DUMP_TRACE_OUT'):
        import trace_dump
        r = trace_dump.DumpRecorder()
        r.install()
        _tr['dump'] = r
        return
    import check_c07
    t = shim.JsonTracer(yatiml, check_c07.lex)
    t.install()
    _tr['json'] = t
    if os.environ.get('VERIF_LOAD_TRACE_OUT'):
        import trace_load
        r = trace_load.LoadRecorder()
        r.install()
        _tr['load'] = r


def pytest_unconfigure(config):
    r = _tr.get('dump')
    if r is not None:
        r.uninstall()
        with open(os.environ['VERIF_DUMP_TRACE_OUT'], 'w') as f:
            json.dump({'records': r.records, 'skipped': dict(r.skipped)}, f,
                      default=repr)
        return
    r = _tr.get('load')
    if r is not None:
        r.uninstall()
        with open(os.environ['VERIF_LOAD_TRACE_OUT'], 'w') as f:
            json.dump({'records': r.records, 'skipped': dict(r.skipped)}, f,
                      default=repr)
    t = _tr.get('json')
    if t is None:
        return
    t.uninstall()
    out = os.environ.get('VERIF_TRACE_OUT')
    if out:
        with open(out, 'w') as f:
            json.dump({'broken': t.broken, 'traces': t.drain()}, f)
