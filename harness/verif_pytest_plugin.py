"""pytest plugin: run the repository's own tests under the observation shim
and write the recorded traces (YATIML_VERIF=1, VERIF_TRACE_OUT=<file>)."""
import json
import os
import sys

_tr = {}


def pytest_configure(config):
    import shim
    if not shim.enabled():
        return
    import yatiml
    import check_c07
    t = shim.JsonTracer(yatiml, check_c07.lex)
    t.install()
    _tr['json'] = t


def pytest_unconfigure(config):
    t = _tr.get('json')
    if t is None:
        return
    t.uninstall()
    out = os.environ.get('VERIF_TRACE_OUT')
    if out:
        with open(out, 'w') as f:
            json.dump({'broken': t.broken, 'traces': t.drain()}, f)
