"""C05 / C06 (and the dumping half of C10) on spec/RoundTrip.tla.

TLC generates object graphs (type directed, with sharing), Represents them
(registry written at node creation, sweeten chain), recomposes the emitted
text (plain iff the DUMPER's resolver agrees, typed by the LOADER's resolver
when read) and runs the load pipeline on the result.  Every terminal state is
exported and replayed: the real object graph is built, dumped, parsed with
plain PyYAML and loaded again.
"""
import collections
import datetime
import io
import common
import json
import math
import os
import pathlib
import random

import yaml

import catalogue
import loadcheck
import loadreplay
import modelgen
from common import (BUILD, NCPU, SEED, MachineryError, Verdict, chunked,
                    use_repo)

PRE = 'tag:yaml.org,2002:'


def live_dimplicit():
    """The tag the live Dumper's resolver gives each catalogue atom when it
    is written as a plain scalar (binding C for the dumping side)."""
    y = use_repo()
    tbl = y.dumps_function().dumper.yaml_implicit_resolvers
    base = catalogue.build()
    out = {}
    for v, _ in base['dimplicit']:
        lst = tbl.get(v[0] if v else '', []) + tbl.get(None, [])
        tag = 'str'
        for t, rx in lst:
            if rx.match(v):
                tag = t[len(PRE):] if t.startswith(PRE) else t
                break
        out[v] = tag
    return out


def prim(tag, text):
    """Python value PyYAML constructs for (tag, text)."""
    node = yaml.ScalarNode(PRE + tag, text)
    ld = yaml.SafeLoader('')
    try:
        return ld.construct_object(node, deep=True)
    finally:
        ld.dispose()


PRIMTAG = {'date': 'timestamp', 'datetime': 'timestamp'}


def build_objects(b, oh, root):
    """Python object graph for an object heap, sharing preserved."""
    done = {}

    def mk(i):
        if i in done:
            return done[i]
        o = oh[i - 1]
        k = o['k']
        f = o['f'] if isinstance(o['f'], list) else []
        if k in ('str', 'int', 'float', 'bool', 'null', 'date', 'datetime'):
            v = None if k == 'null' else prim(PRIMTAG.get(k, k), o['v'])
        elif k == 'path':
            v = pathlib.Path(o['v'])
        elif k == 'enum':
            v = b.classes[o['c']][o['v']]
        elif k == 'strlike':
            v = b.classes[o['c']](o['v'])
        elif k == 'list':
            v = []
            done[i] = v
            v.extend(mk(x) for x in f)
        elif k == 'dict':
            v = {}
            done[i] = v
            for j in range(0, len(f), 2):
                v[mk(f[j])] = mk(f[j + 1])
        elif k == 'obj':
            c = b.byname[o['c']]
            kw = {}
            for j, p in enumerate(c['params']):
                kw[p['name']] = mk(f[j])
            if c['extra']:
                ex = collections.OrderedDict()
                if len(f) > len(c['params']):
                    ex['xk'] = mk(f[len(c['params'])])
                kw['_yatiml_extra'] = ex
            v = b.classes[o['c']](**kw)
        else:
            raise MachineryError('object kind %r' % k)
        done[i] = v
        return v
    return mk(root), done


def identity_shape(v, seen=None, depth=0):
    """Structure with sharing: repeated non-scalar objects become backrefs."""
    seen = {} if seen is None else seen
    if depth > 30:
        return '...'
    if v is None or isinstance(v, (str, int, float, bool, datetime.date,
                                   pathlib.PurePath)) and not \
            isinstance(v, (collections.UserString,)):
        if type(v) in (str, int, float, bool, type(None), datetime.date,
                       datetime.datetime) or isinstance(v, pathlib.PurePath):
            return repr(v)
    if id(v) in seen:
        return ('ref', seen[id(v)])
    seen[id(v)] = len(seen)
    if isinstance(v, list):
        return ('list', [identity_shape(x, seen, depth + 1) for x in v])
    if isinstance(v, dict):
        return ('dict', [(identity_shape(a, seen, depth + 1),
                          identity_shape(x, seen, depth + 1))
                         for a, x in v.items()])
    if hasattr(v, '__dict__') and not isinstance(v, type):
        return (type(v).__name__,
                [(a, identity_shape(x, seen, depth + 1))
                 for a, x in sorted(vars(v).items())])
    return repr(v)


def plain_projection(dumped):
    """Python plain data the predicted node graph denotes for a plain
    parser (aliases expand to the same object)."""
    h = dumped['h']
    memo = {}

    def go(i):
        if i in memo:
            return memo[i]
        n = h[i - 1]
        if n['k'] == 's':
            v = None if n['t'] == 'null' else prim(n['t'], n['v'])
        elif n['k'] == 'q':
            v = []
            memo[i] = v
            v.extend(go(c) for c in n['c'])
        else:
            v = {}
            memo[i] = v
            for j in range(0, len(n['c']), 2):
                v[go(n['c'][j])] = go(n['c'][j + 1])
        memo[i] = v
        return v
    return go(dumped['r'])


def same_plain(a, b):
    if isinstance(a, float) and isinstance(b, float):
        return (math.isnan(a) and math.isnan(b)) or (
            a == b and math.copysign(1, a) == math.copysign(1, b))
    if type(a) is not type(b):
        return False
    if isinstance(a, list):
        return len(a) == len(b) and all(same_plain(x, y)
                                        for x, y in zip(a, b))
    if isinstance(a, dict):
        return (list(a.keys()) == list(b.keys()) and
                all(same_plain(a[k], b[k]) for k in a))
    return a == b


def same_abstract(a, b):
    """NaN-aware structural equality of abstract values."""
    return json.dumps(a, sort_keys=True) == json.dumps(b, sort_keys=True)


_dfn = {}


def fns(mid, dt):
    key = (mid, json.dumps(dt))
    if key not in _dfn:
        b = loadreplay.built(mid)
        y = loadreplay.ctx()['yatiml']
        _dfn[key] = (y.dumps_function(*b.registered),
                     loadreplay.load_fn(mid, dt))
    return _dfn[key]


def classify(c, kind=None):
    if c['dev']['sharedscalar'] or c['dev']['alias']:
        return 'F7'
    return None


def has_f2_atom(c):
    """F2 classifier: the value contains a string that the live dumper's
    resolver calls str although it is a YAML 1.2 float."""
    cat = loadreplay.ctx()['cat']
    dimp = {v: t for v, t in cat['dimplicit']}
    imp = {v: t for v, t in cat['implicit']}
    return any(o['k'] in ('str', 'strlike', 'path') and
               dimp.get(o['v'], 'str') == 'str' and
               imp.get(o['v'], 'str') == 'float'
               for o in c['oh'])


def class_state(b):
    """The state of the user's classes that a dump could leave behind: the
    names in their namespaces and the class-level _yatiml_defaults."""
    return {n: (sorted(vars(k)), repr(vars(k).get('_yatiml_defaults')))
            for n, k in b.classes.items()}


def observe_dump(c):
    ctx = loadreplay.ctx()
    y = ctx['yatiml']
    b = loadreplay.built(c['model'])
    dumps, load = fns(c['model'], c['dt'])
    obj, _ = build_objects(b, c['oh'], c['oroot'])
    del modelgen.LOG[:]
    before_abs = b.abstract(obj)
    before_shape = identity_shape(obj)
    before_cls = class_state(b)
    o = {}
    try:
        text = dumps(obj)
        o['text'] = text
    except Exception as e:  # noqa
        o['dump_exc'] = modelgen.exc_class(y, e) + ': ' + str(e)[:200]
        o['dump_class'] = modelgen.exc_class(y, e)
        return o, obj, b
    o['swelog'] = [[k, d, a] for k, d, a, _ in modelgen.LOG if k == 'swe']
    o['unchanged'] = (same_abstract(before_abs, b.abstract(obj)) and
                      before_shape == identity_shape(obj) and
                      before_cls == class_state(b))
    try:
        o['text2'] = dumps(obj)
    except Exception as e:  # noqa
        o['text2'] = 'EXC ' + repr(e)
    # the same object through dump_function into an open stream
    try:
        key = ('stream', c['model'])
        if key not in _dfn:
            _dfn[key] = y.dump_function(*b.registered)
        buf = io.StringIO()
        _dfn[key](obj, buf)
        o['text_stream'] = buf.getvalue()
    except Exception as e:  # noqa
        o['text_stream'] = 'EXC ' + repr(e)
    # a dump function created with the classes in the reverse order (the
    # hook chains are defined by the class hierarchy, not by that order)
    try:
        key = ('reversed', c['model'])
        if key not in _dfn:
            _dfn[key] = y.dumps_function(*reversed(b.registered))
        o['text_rev'] = _dfn[key](obj)
    except Exception as e:  # noqa
        o['text_rev'] = 'EXC ' + repr(e)
    o['value'] = before_abs
    return o, obj, b


def rel_c06(c):
    out = []
    fid = classify(c)
    if not c['inv']['TagFree']:
        out.append(('model', 'specification emits an explicit tag: %s' %
                    json.dumps(c['dumped'])[:300], None))
    if not c['inv']['ProjectionFaithful']:
        out.append(('model', 'specification: the document for %s is not the '
                    'projection of the object at every reference: %s' % (
                        json.dumps(c['value'])[:200],
                        json.dumps(c['dumped'])[:300]), fid))
    o, obj, b = observe_dump(c)
    if 'dump_exc' in o:
        if c['dex'] == '':
            out.append(('impl', 'dumps(%s) raised %s' % (
                json.dumps(c['value'])[:200], o['dump_exc']), fid))
        return out, 1
    if c['dex'] != '':
        out.append(('impl', 'specification: dumps(%s) raises %s; code wrote %r'
                    % (json.dumps(c['value'])[:200], c['dex'], o['text']),
                    fid))
        return out, 1
    text = o['text']
    what = 'dumps(%s) = %r' % (json.dumps(c['value'])[:200], text)
    # one well-formed document, no explicit tags
    try:
        docs = list(yaml.compose_all(text, Loader=yaml.SafeLoader))
        toks = list(yaml.scan(text))
    except yaml.YAMLError as e:
        out.append(('impl', '%s is not well-formed YAML: %s' % (what, e), fid))
        return out, 1
    if len(docs) != 1:
        out.append(('impl', '%s: %d documents' % (what, len(docs)), fid))
    if any(isinstance(t, yaml.TagToken) for t in toks):
        out.append(('impl', '%s contains an explicit tag' % what, fid))
    # plain data = the projection the specification predicts
    try:
        data = yaml.safe_load(text)
        proj = plain_projection(c['dumped'])
        if not same_plain(data, proj):
            out.append(('impl', '%s: a plain parser reads %r, the projection '
                        'is %r' % (what, data, proj), fid))
    except yaml.YAMLError as e:
        out.append(('impl', '%s: plain parser failed: %s' % (what, e), fid))
    if not o['unchanged']:
        out.append(('impl', '%s modified the object graph' % what, fid))
    if o['text2'] != text:
        out.append(('impl', 'second dump differs: %r vs %r' % (
            o['text2'], text), fid))
    if o['text_stream'] != text:
        out.append(('impl', 'dump_function wrote %r into a stream, '
                    'dumps_function returns %r' % (o['text_stream'], text),
                    fid))
    if o['text_rev'] != text:
        out.append(('impl', 'dumps_function with the classes registered in '
                    'the reverse order returns %r, in the declared order %r'
                    % (o['text_rev'], text), fid))
    # sweeten calls (C10, dumping side)
    sl = [[e[0], e[1]] for e in (c['dlog'] if isinstance(c['dlog'], list)
                                 else [])]
    ol = [[e[0], e[1]] for e in o['swelog']]
    if sl != ol:
        out.append(('impl', '%s: sweeten calls %s, specification %s' % (
            what, ol, sl), fid))
    for e in o['swelog']:
        if e[1] != e[2]:
            out.append(('impl', '%s: sweeten of %s called for %s' % (
                what, e[1], e[2]), fid))
    return out, 1


def rel_c05(c):
    out = []
    fid = classify(c)
    if fid is None and has_f2_atom(c):
        fid = 'F2'
    rtype = c['dt'] in loadreplay.ctx()['models'][c['model']]['rtypes']
    if not rtype:
        return out, 0
    if loadreplay.ctx()['models'][c['model']]['family'] in ('gen',
                                                            'dumpinv') and \
            not c['inv']['RoundTripHolds'] and c['dex'] == '':
        # machine-generated hierarchies are often ambiguous (a base-class
        # object whose text also matches a subclass with optional extras):
        # the property is claimed for unambiguous values only, which for these
        # models are those the specification itself loads back unchanged
        return out, 0
    if not c['inv']['RoundTripHolds']:
        out.append(('model', 'specification: load(dumps(%s)) = %s' % (
            json.dumps(c['value'])[:200], json.dumps(c['res'])[:200]), fid))
    if not c['inv']['DumpNeverFails']:
        out.append(('model', 'specification: dumps(%s) raises %s' % (
            json.dumps(c['value'])[:200], c['dex']),
            'F9' if c['dex'] in ('Other:TypeError', 'Other:ValueError')
            else fid))
    o, obj, b = observe_dump(c)
    if 'dump_exc' in o:
        out.append(('impl', 'dumps(%s) raised %s' % (
            json.dumps(c['value'])[:200], o['dump_exc']),
            'F9' if o['dump_class'] in ('Other:TypeError', 'Other:ValueError')
            and any(cl['swe'][0] == 'remove_defaults'
                    for cl in b.model['classes']) else fid))
        return out, 1
    dumps, load = fns(c['model'], c['dt'])
    try:
        back = load(o['text'])
    except Exception as e:  # noqa
        out.append(('impl', 'load(dumps(%s)) raised %s: %s; text %r' % (
            json.dumps(c['value'])[:200], modelgen.exc_class(b.yatiml, e),
            str(e)[:150].replace('\n', ' | '), o['text']), fid))
        return out, 2
    got = b.abstract(back)
    if not same_abstract(got, o['value']):
        out.append(('impl', 'load(dumps(v)) != v: v = %s, got %s, text %r' % (
            json.dumps(o['value'])[:200], json.dumps(got)[:200], o['text']),
            fid))
    return out, 2


RELS = {'C05': rel_c05, 'C06': rel_c06}
_pid = [None]


def _chunk(cases):
    rel = RELS[_pid[0]]
    out = []
    for c in cases:
        try:
            out.append(rel(c))
        except MachineryError as e:
            out.append(([('machinery', str(e)[:500], None)], 0))
    return out


def write_models_live():
    return loadcheck.write_models(dimplicit=live_dimplicit())


def run(pid, tier, replay=None):
    import multiprocessing
    if replay:
        with open(replay) as f:
            rec = json.load(f)
        write_models_live()
        res, _ = RELS[pid](rec['case']['case'])
        for kind, detail, fid in res:
            print('%s: %s%s' % (kind, detail,
                                ' [known %s]' % fid if fid else ''))
        return 1 if res else 0
    V = Verdict(pid, tier)
    V.assumptions = [
        'PyYAML representer/serializer as modelled (registry written at node '
        'creation; scalars never aliased); emitter/scanner character-level '
        'behaviour is exercised on the concrete atom pool, not modelled',
        'the dumper\'s implicit tags of the atom pool are read from the live '
        'Dumper resolver table; the loader side uses the YAML 1.2 reference',
    ]
    cfg = 'MC_RoundTrip_q.cfg' if tier == 'quick' else 'MC_RoundTrip_t.cfg'
    stats, cases = loadcheck.tlc_cases(
        cfg, module='MC_RoundTrip', extra_files=('RoundTrip.tla',),
        dimplicit=live_dimplicit())
    loadcheck.add_stats(V, stats)
    for c in cases:
        if not isinstance(c['oh'], list):
            c['oh'] = []
    _pid[0] = pid
    rnd = random.Random(SEED)
    rnd.shuffle(cases)
    chunks = chunked(cases, NCPU * 4)
    parts = common.fork_map(_chunk, chunks)
    for cs, part in zip(chunks, parts):
        for c, (res, n) in zip(cs, part):
            if n == 0 and not res:
                V.out_of_domain += 1
                continue
            V.replayed += 1
            V.evaluations += n
            if len(c['oh']) >= 2:
                V.nontrivial.add(json.dumps([c['model'], c['dt'], c['oh']],
                                            sort_keys=True))
            for kind, detail, fid in res:
                if kind == 'machinery':
                    raise MachineryError(detail)
                V.violation({'pid': pid, 'kind': kind, 'case': c}, detail,
                            finding=fid)
            if len(c['oh']) >= 3:
                V.sample({'model': c['model'], 'type': c['dt'],
                          'value': c['value'],
                          'predicted_nodes': c['dumped'],
                          'predicted_reload': c['res'][:2]})
    extra = EXTRA.get(pid)
    if extra:
        extra(V, tier)
    V.exhaustive = True
    return V.finish(
        'every terminal state of the RoundTrip exploration: object graphs of '
        'the catalogue types up to the per-model object bound (with sharing), '
        'dumped, re-read with plain PyYAML and loaded again; distinct = '
        'distinct (model, type, object graph) with at least 2 objects')


def _trace_dump(V, tier):
    import trace_dump
    trace_dump.validate(V, tier)


# C06 also validates the dumps the repository's own tests perform (code->spec)
EXTRA = {'C06': _trace_dump}
