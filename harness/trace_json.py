"""Binding (B) for C07: record emit_json traces from the real code and have
TLC validate them against spec/Trace_Json.tla."""
import json
import os
import random
import re
import subprocess
import sys

from common import (to_tlc, BUILD, REPO, SEED, VERIF, MachineryError, run_tlc,
                    use_repo)


def record_repo_tests():
    """Run the repository's test suite under the shim."""
    out = os.path.join(BUILD, 'json-traces-repo.json')
    if os.path.exists(out):
        os.remove(out)
    env = dict(os.environ)
    env.update({'YATIML_VERIF': '1', 'VERIF_TRACE_OUT': out,
                'PYTHONPATH': os.path.join(VERIF, 'harness') + os.pathsep +
                REPO, 'VERIF_REPO': REPO, 'PYTHONDONTWRITEBYTECODE': '1'})
    p = subprocess.run([sys.executable, '-m', 'pytest', '-q', '-x',
                        '-p', 'verif_pytest_plugin', '-p', 'no:cacheprovider',
                        '--no-cov', '-k', 'json', os.path.join(REPO, 'tests')],
                       cwd=REPO, env=env, stdout=subprocess.PIPE,
                       stderr=subprocess.STDOUT)
    if not os.path.exists(out):
        raise MachineryError('recording the repository tests failed: %s' %
                             p.stdout.decode()[-800:])
    with open(out) as f:
        d = json.load(f)
    return d['traces'], d['broken']


def record_generated(n, rnd):
    """Generated values beyond the TLC bounds: deeper / wider trees."""
    import datetime
    import shim
    import check_c07
    y = use_repo()
    t = shim.JsonTracer(y, check_c07.lex)
    os.environ['YATIML_VERIF'] = '1'
    t.install()
    try:
        dumps = y.dumps_json_function()

        def gen(depth):
            r = rnd.random()
            if depth == 0 or r < 0.35:
                return rnd.choice([1, -2.5, 'x', 'é"\\', None, True, False,
                                   datetime.date(2020, 1, 2), 1e20, '', 0])
            if r < 0.7:
                return [gen(depth - 1) for _ in range(rnd.randint(0, 4))]
            return {'k%d' % i: gen(depth - 1)
                    for i in range(rnd.randint(0, 4))}
        for i in range(n):
            if i % 25 == 7:
                # an abandoned dump (alias) followed by ordinary ones
                shared = [1]
                try:
                    dumps({'a': [shared, {'b': shared}]})
                except RuntimeError:
                    pass
            obj = gen(rnd.randint(1, 6))
            kw = {}
            if i % 3:
                kw['indent'] = rnd.choice([None, 0, 1, 2, 3, 5, 8, 9, 12])
            if i % 2:
                kw['ensure_ascii'] = bool(i % 4 == 1)
            dumps(obj, **kw)
    finally:
        t.uninstall()
    if t.broken:
        return None
    return t.drain()


def validate(V, tier):
    rnd = random.Random(SEED)
    traces, broken = record_repo_tests()
    n_repo = len(traces)
    gen = record_generated(300 if tier == 'quick' else 5000, rnd)
    if broken or gen is None:
        V.notes['trace_validation'] = (
            'skipped: the private emitter state is not observable (%s); the '
            'verdict rests on the public-API replay' % (broken or 'renamed'))
        return
    traces += gen
    if not traces:
        raise MachineryError('no emit_json traces recorded')
    path = os.path.join(BUILD, 'json-traces.json')
    with open(path, 'w') as f:
        f.write(to_tlc(json.dumps(traces)))
    r = run_tlc('MC_Trace_Json', 'Trace_Json.cfg', workers=1,
                env={'TRACE_FILE': path}, timeout=3600, want_cases=False,
                name='trace-json')
    mi = re.search(r'<<\s*"TRACES"', r.stdout)
    i = mi.start() if mi else -1
    if r.violated:
        p = os.path.join(V.replay_dir, 'trace-invariant.txt')
        with open(p, 'w') as f:
            f.write(r.stdout[-8000:])
        V._violation_line(p, 'a recorded emit_json trace violates emitter '
                          'invariant %s' % r.violated)
        return
    if i < 0:
        raise MachineryError('no verdict from trace validation: %s' %
                             (r.error or r.stdout[-1500:]))
    verdict = r.stdout[i:]
    j = verdict.find('\nError:')
    if j >= 0:
        verdict = verdict[:j]
    mset = re.search(r'"REJECTED",\s*\{([^}]*)\}', verdict)
    if not mset:
        raise MachineryError('unparsable trace verdict: %s' % verdict[:500])
    rejected = [int(x) for x in re.findall(r'\d+', mset.group(1))]
    m = None
    V.states += r.distinct
    V.transitions += r.generated
    V.traces += len(traces) - len(rejected)
    V.tlc_runs.append({'what': 'Trace_Json validation of recorded emit_json '
                       'traces', 'traces': len(traces),
                       'from_repo_tests': n_repo, 'rejected': len(rejected),
                       'distinct_states': r.distinct})
    far = dict((int(a), int(b)) for a, b in re.findall(
        r'(\d+) :> (\d+)', verdict))
    if len(rejected) == 1 and not far:
        mm = re.search(r'<<(\d+)>>', verdict[verdict.find('}'):])
        if mm:
            far[rejected[0]] = int(mm.group(1))
    for i in rejected[:10]:
        tr = traces[i - 1]
        pos = far.get(i, 1)
        p = os.path.join(V.replay_dir, 'trace-%d.json' % i)
        with open(p, 'w') as f:
            json.dump({'trace': tr, 'first_unexplained_event': pos}, f,
                      indent=1)
        ev = tr['events'][pos - 1] if pos - 1 < len(tr['events']) else None
        V._violation_line(p, 'recorded emit_json trace %d is not a behaviour '
                          'of JsonEmitter: matched %d of %d events, first '
                          'unexplained event %s' % (
                              i, pos - 1, len(tr['events']), json.dumps(ev)))
    V.sample({'recorded_trace_events': traces[0]['events'][:6]})
