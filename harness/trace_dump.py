"""Trace validation (code -> spec) for dumping, on class models nobody wrote
for the specification: every yaml.dump the repository's test suite and the
documentation examples perform through a yatiml Dumper is recorded (the object
graph, abstracted; the class model extracted from the live Dumper class; the
text written), and TLC runs RoundTrip's Represent on the recorded object graph
with the extracted class model (Trace_Dump.tla).  The node graph the
specification produces, read back the way the text is read back (Recompose),
must equal the node graph a plain YAML composer sees in the text the code
wrote.  Dumps of classes with _yatiml_sweeten / _yatiml_attributes (arbitrary
user code) are outside the abstraction and are counted as not modelled.
"""
import collections
import datetime
import enum
import io
import json
import os
import pathlib
import re
import subprocess
import sys

import yaml

import trace_load
from trace_load import Unsupported, PRE


class _FakeLoader:
    """what extract_model needs of a Loader class"""
    def __init__(self, classes):
        import typing
        self._registered_classes = {'!' + c.__name__: c for c in classes}
        self.document_type = typing.Any


def registered_classes(dumper_cls):
    out = []
    for k, v in dumper_cls.yaml_representers.items():
        if k is None or not type(v).__module__.startswith('yatiml'):
            continue
        if isinstance(k, type) and issubclass(k, pathlib.PurePath):
            continue
        out.append(k)
    return out


def float_text(x):
    return yaml.SafeDumper(io.StringIO()).represent_float(x).value


def abstract_heap(obj, names):
    """Object graph -> RoundTrip's object heap [{k, c, v, f}], sharing of
    collections and objects preserved (scalars are values)."""
    heap = []
    ids = {}

    def add(k, c='', v='', f=None):
        heap.append({'k': k, 'c': c, 'v': v, 'f': f if f is not None else []})
        return len(heap)

    def walk(v, depth=0):
        if depth > 30:
            raise Unsupported('deep value')
        t = type(v)
        if t is bool:
            return add('bool', v='true' if v else 'false')
        if t is int:
            return add('int', v=str(v))
        if t is float:
            return add('float', v=float_text(v))
        if v is None:
            return add('null', v='null')
        if t is str:
            return add('str', v=v)
        if t is datetime.datetime or t is datetime.date:
            raise Unsupported('date value')
        if isinstance(v, pathlib.PurePath):
            return add('path', v=str(v))
        if isinstance(v, enum.Enum):
            if t not in names:
                raise Unsupported('class %s not registered' % t.__name__)
            return add('enum', c=names[t], v=v.name)
        if t in names and (isinstance(v, (str, collections.UserString)) or
                           any(b.__name__ == 'String' for b in t.__mro__)):
            return add('strlike', c=names[t], v=str(v))
        if id(v) in ids:
            return ids[id(v)]
        if t is list:
            i = add('list')
            ids[id(v)] = i
            heap[i - 1]['f'] = [walk(x, depth + 1) for x in v]
            return i
        if t in (dict, collections.OrderedDict):
            i = add('dict')
            ids[id(v)] = i
            f = []
            for k, x in v.items():
                f.append(walk(k, depth + 1))
                f.append(walk(x, depth + 1))
            heap[i - 1]['f'] = f
            return i
        if t in names:
            import inspect
            spec = inspect.getfullargspec(t.__init__)
            i = add('obj', c=names[t])
            ids[id(v)] = i
            f = []
            for a in spec.args[1:]:
                if a == '_yatiml_extra':
                    continue
                if not hasattr(v, a):
                    raise Unsupported('attribute %s.%s missing' % (
                        t.__name__, a))
                f.append(walk(getattr(v, a), depth + 1))
            if '_yatiml_extra' in spec.args:
                ex = getattr(v, '_yatiml_extra', None)
                if ex:
                    raise Unsupported('extra attributes present')
            heap[i - 1]['f'] = f
            return i
        raise Unsupported('value of type %s' % t.__name__)
    root = walk(obj)
    return heap, root


class DumpRecorder:
    def __init__(self):
        self.records = []
        self.skipped = collections.Counter()
        self.orig = None

    def install(self):
        rec = self
        self.orig = orig = yaml.dump

        def dump(data, stream=None, Dumper=None, **kw):
            import yatiml
            if Dumper is None:
                return orig(data, stream, **kw)
            if stream is not None or not (
                    isinstance(Dumper, type) and
                    issubclass(Dumper, yatiml.dumper.Dumper)):
                return orig(data, stream, Dumper, **kw)
            try:
                text = orig(data, None, Dumper, **kw)
            except Exception:
                rec.skipped['raised'] += 1
                raise
            rec.add(Dumper, data, text)
            return text
        yaml.dump = dump

    def uninstall(self):
        if self.orig is not None:
            yaml.dump = self.orig
            self.orig = None

    def add(self, dumper_cls, obj, text):
        try:
            classes = registered_classes(dumper_cls)
            for c in classes:
                for hook in ('_yatiml_sweeten', '_yatiml_attributes'):
                    if any(hook in vars(k) for k in c.__mro__[:-1]):
                        raise Unsupported('hook %s on %s' % (hook,
                                                             c.__name__))
            model, dt, names = trace_load.extract_model(
                _FakeLoader(classes), 'd%d' % len(self.records))
            oh, oroot = abstract_heap(obj, names)
            heap, root = trace_load.abstract_doc(text)
        except Unsupported as e:
            self.skipped[str(e).split(' ')[0]] += 1
            return
        except yaml.YAMLError:
            self.skipped['unparseable'] += 1
            return
        self.records.append({
            'model': model, 'oh': oh, 'oroot': oroot, 'heap': heap,
            'root': root, 'text': text,
            'format': getattr(dumper_cls, 'output_format', 'yaml'),
            'dimplicit': dumper_implicit(dumper_cls, oh)})


def dumper_implicit(dumper_cls, oh):
    """the tag the live Dumper's resolver gives each string atom when it is
    written plain"""
    out = {}
    r = yaml.resolver.BaseResolver.resolve
    inst = object.__new__(dumper_cls)
    yaml.resolver.BaseResolver.__init__(inst)
    for o in oh:
        if o['k'] in ('str', 'strlike', 'path', 'enum'):
            t = r(inst, yaml.ScalarNode, o['v'], (True, False))
            out[o['v']] = t[len(PRE):] if t.startswith(PRE) else t
    return out


def tree(heap, n, depth=0):
    """alias-expanded tree of a node graph (None on cycles / too deep)"""
    if depth > 40:
        return None
    nd = heap[n - 1]
    kids = nd['c'] if isinstance(nd['c'], list) else []
    sub = [tree(heap, c, depth + 1) for c in kids]
    if any(s is None for s in sub):
        return None
    return [nd['k'], nd['t'], nd['v'] if nd['k'] == 's' else '', sub]


def validate(V, tier, corrupt=None):
    import catalogue
    from common import (to_tlc, BUILD, REPO, VERIF, MachineryError, run_tlc)
    out = os.path.join(BUILD, 'dump-traces-repo.json')
    if os.path.exists(out):
        os.remove(out)
    env = dict(os.environ)
    env.update({'YATIML_VERIF': '1', 'VERIF_DUMP_TRACE_OUT': out,
                'PYTHONPATH': os.path.join(VERIF, 'harness') + os.pathsep +
                REPO, 'VERIF_REPO': REPO, 'PYTHONDONTWRITEBYTECODE': '1'})
    env.pop('VERIF_LOAD_TRACE_OUT', None)
    env.pop('VERIF_TRACE_OUT', None)
    p = subprocess.run([sys.executable, '-m', 'pytest', '-q',
                        '-p', 'verif_pytest_plugin', '-p', 'no:cacheprovider',
                        '--no-cov', os.path.join(REPO, 'tests')],
                       cwd=REPO, env=env, stdout=subprocess.PIPE,
                       stderr=subprocess.STDOUT)
    if not os.path.exists(out):
        raise MachineryError('recording the repository tests failed: %s' %
                             p.stdout.decode()[-800:])
    if os.path.isdir(os.path.join(REPO, 'docs', 'examples')):
        subprocess.run([sys.executable,
                        os.path.join(VERIF, 'harness', 'run_examples.py'),
                        REPO], cwd=REPO, env=env, stdout=subprocess.PIPE,
                       stderr=subprocess.STDOUT)
    with open(out) as f:
        d = json.load(f)
    recs = d['records']
    if corrupt is not None:         # binding self-test
        corrupt(recs)
    V.notes['repo_dumps_recorded'] = len(recs)
    V.notes['repo_dumps_not_modelled'] = d['skipped']
    if not recs:
        V.notes['dump_trace_validation'] = 'no dump of the test suite is ' \
            'over a hook-free class model'
        return
    base = catalogue.build()
    atoms = {''}
    for r in recs:
        for o in r['oh']:
            atoms.add(o['v'])
    dimp = {}
    for r in recs:
        dimp.update(r['dimplicit'])
    tags = ['str', 'int', 'float', 'bool', 'null', 'timestamp']
    data = {
        'models': [r['model'] for r in recs],
        'pool': base['pool'],
        'dimplicit': [[a, dimp.get(a, trace_load.ref_implicit(a))]
                      for a in sorted(atoms)],
        'coretags': base['coretags'],
        'ctor': catalogue.ctor_table([(t, a) for a in sorted(atoms)
                                      for t in tags]),
        'implicit': [[a, trace_load.ref_implicit(a)] for a in sorted(atoms)],
        'undash': [[a, a.replace('-', '_')] for a in sorted(atoms)],
        'traces': [{'mi': i + 1, 'oh': r['oh'], 'oroot': r['oroot']}
                   for i, r in enumerate(recs)],
    }
    path = os.path.join(BUILD, 'models_dumptraces.json')
    with open(path, 'w') as f:
        f.write(to_tlc(json.dumps(data)))
    t = run_tlc('MC_Trace_Dump', 'Trace_Dump.cfg', workers=1,
                env={'YATIML_MODELS': path}, timeout=3600, name='trace-dump')
    if t.error:
        raise MachineryError('dump trace validation failed: %s' % t.error)
    if t.violated:
        pth = os.path.join(V.replay_dir, 'trace-dump-invariant.txt')
        with open(pth, 'w') as f:
            f.write(t.stdout[-8000:])
        V._violation_line(pth, 'a recorded dump of the repository test suite '
                          'violates %s on the specification' % t.violated)
        return
    bytid = {c['tid']: c for c in t.cases}
    V.states += t.distinct
    V.transitions += t.generated
    ok = 0
    for i, r in enumerate(recs, 1):
        c = bytid.get(i)
        if c is None:
            raise MachineryError('no verdict for dump trace %d' % i)
        if c['dex'] != '':
            detail = 'the specification raises %s' % c['dex']
            same = False
        else:
            h = c['doc']['h'] if isinstance(c['doc']['h'], list) else []
            for n in h:
                if not isinstance(n['c'], list):
                    n['c'] = []
            st = tree(h, c['doc']['r'])
            ct = tree(r['heap'], r['root'])
            same = st is not None and st == ct
            detail = 'specification %s, text read back %s' % (
                json.dumps(st)[:300], json.dumps(ct)[:300])
        if same:
            ok += 1
            continue
        pth = os.path.join(V.replay_dir, 'dump-trace-%d.json' % i)
        with open(pth, 'w') as f:
            json.dump({'text': r['text'], 'oh': r['oh'], 'spec': c}, f,
                      indent=1, default=repr)
        V._violation_line(pth, 'a dump of the repository test suite wrote %r: '
                          '%s' % (r['text'][:200], detail))
    V.traces += ok
    V.tlc_runs.append({'what': 'Trace_Dump: dumps of the repository test '
                       'suite and documentation examples validated against '
                       'RoundTrip.Represent', 'traces': len(recs),
                       'accepted': ok, 'distinct_states': t.distinct})
