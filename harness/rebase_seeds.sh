#!/bin/sh
# rebase_seeds.sh: seeded patches that no longer apply to /repo HEAD (after a
# fix: commit) are re-created with a 3-way apply; the original is kept as
# patch.orig.diff.  Patches that conflict are reported.
W=$(mktemp -d /tmp/rebase-XXXX)
git -C /repo worktree add --detach $W/wt HEAD >/dev/null 2>&1 || exit 2
for p in /verif/seeded/*/patch.diff /verif/benign/*.diff; do
  (cd $W/wt && git reset -q --hard HEAD && git clean -fdq)
  if (cd $W/wt && git apply --check "$p" 2>/dev/null); then continue; fi
  if (cd $W/wt && git apply -3 "$p" >/dev/null 2>&1) && \
     [ -z "$(cd $W/wt && git diff --name-only --diff-filter=U)" ]; then
    case $p in */patch.diff) [ -f "${p%patch.diff}patch.orig.diff" ] || cp "$p" "${p%patch.diff}patch.orig.diff";; esac
    (cd $W/wt && git diff --cached) > "$p"
    echo "rebased $p"
  else
    echo "CONFLICT $p"
  fi
done
git -C /repo worktree remove --force $W/wt; rm -rf $W
