"""C16 - UnknownNode.require_* accept exactly the nodes they describe.

spec/Require.tla: the six helpers as predicates over composed nodes; typed
require_attribute is defined through the declarative reference's Cand (the
rules the loader itself uses).  TLC enumerates all nodes within the bound for
several class models and exports the verdict of every helper for every
attribute name / type / value; the replay calls the real helpers on real
nodes and also checks that the node is unchanged."""
import json

import yaml

import loadcheck
import loadreplay
import render
from common import MachineryError, Verdict, pool_map

PY = {'str': str, 'int': int, 'float': float, 'bool': bool, 'null': None}
PRE = 'tag:yaml.org,2002:'


def snapshot(n, seen=None):
    seen = {} if seen is None else seen
    if id(n) in seen:
        return ('ref', seen[id(n)])
    seen[id(n)] = len(seen)
    if isinstance(n, yaml.ScalarNode):
        return ('s', n.tag, n.value)
    if isinstance(n, yaml.SequenceNode):
        return ('q', n.tag, [snapshot(x, seen) for x in n.value])
    return ('m', n.tag, [(snapshot(k, seen), snapshot(v, seen))
                         for k, v in n.value])


def pyscalar(v):
    tag, val = v
    return {'str': lambda: val, 'int': lambda: int(val),
            'float': lambda: float(val), 'bool': lambda: val == 'true',
            'null': lambda: None}[tag]()


def check_case(c):
    ctx = loadreplay.ctx()
    y = ctx['yatiml']
    b = loadreplay.built(c['model'])
    fn = loadreplay.load_fn(c['model'], ctx['models'][c['model']]
                            ['doctypes'][0])
    from yatiml.recognizer import Recognizer
    rec = Recognizer(fn.loader._registered_classes,
                     fn.loader._additional_classes)
    text, _ = render.render(c['doc'], ctx['implicit'])
    render.check_faithful(c['doc'], text, ctx['implicit'])
    node = yaml.compose(text, Loader=yaml.SafeLoader)
    # plain PyYAML types plain scalars by YAML 1.1 (`yes` is a bool there);
    # the helpers are used on nodes composed by yatiml's loader: give every
    # plain scalar the tag it has in the abstract document
    seen = set()

    def retag(nd, i):
        if id(nd) in seen:
            return
        seen.add(id(nd))
        ab = c['doc']['h'][i - 1]
        kids = ab['c'] if isinstance(ab['c'], list) else []
        if isinstance(nd, yaml.ScalarNode):
            if nd.style is None:
                nd.tag = render.realtag(ab['t'])
        elif isinstance(nd, yaml.SequenceNode):
            for x, j in zip(nd.value, kids):
                retag(x, j)
        else:
            for (k, v), j in zip(nd.value, range(0, len(kids), 2)):
                retag(k, kids[j])
                retag(v, kids[j + 1])
    retag(node, c['doc']['r'])
    errs = []
    n = [0]

    def call(name, exp, f, args):
        n[0] += 1
        before = snapshot(node)
        try:
            f()
            got = True
        except y.RecognitionError:
            got = False
        except Exception as e:  # noqa
            errs.append('%s%s on %r raised %s: %s' % (
                name, args, text, type(e).__name__, str(e)[:100]))
            return
        if got != exp:
            errs.append('%s%s on %r %s; the documented condition is %s' % (
                name, args, text, 'returned normally' if got else
                'raised RecognitionError', 'satisfied' if exp else
                'not satisfied'))
        if snapshot(node) != before:
            errs.append('%s%s on %r modified the node' % (name, args, text))

    u = y.UnknownNode(rec, node)
    call('require_scalar', c['scalar'], lambda: u.require_scalar(), ())
    for t, exp in c['scalar_of'].items():
        call('require_scalar', exp, lambda t=t: u.require_scalar(PY[t]),
             (t,))
    both = c['scalar_of']['int'] or c['scalar_of']['str']
    call('require_scalar', both, lambda: u.require_scalar(int, str),
         ('int', 'str'))
    call('require_mapping', c['mapping'], lambda: u.require_mapping(), ())
    call('require_sequence', c['sequence'], lambda: u.require_sequence(), ())
    for name, exp in c['attr']:
        call('require_attribute', exp,
             lambda name=name: u.require_attribute(name), (name,))
    for name, T, exp in c['attr_type']:
        call('require_attribute', exp,
             lambda name=name, T=T: u.require_attribute(name, b.pytype(T)),
             (name, json.dumps(T)))
    for name, v, exp in c['attr_value']:
        call('require_attribute_value', exp,
             lambda name=name, v=v: u.require_attribute_value(
                 name, pyscalar(v)), (name, v))
    for name, v, exp in c['attr_value_not']:
        if exp == 'O':
            continue
        exp = exp == 'T'
        call('require_attribute_value_not', exp,
             lambda name=name, v=v: u.require_attribute_value_not(
                 name, pyscalar(v)), (name, v))
    return errs, n[0]


def _chunk(cases):
    out = []
    for c in cases:
        try:
            out.append(check_case(c))
        except MachineryError as e:
            out.append((['MACHINERY ' + str(e)[:300]], 0))
    return out


def run(tier, replay=None):
    V = Verdict('C16', tier)
    V.assumptions = [
        'nodes are composed by plain PyYAML from the rendered abstract '
        'documents; duplicate keys are part of the universe (every match '
        'must satisfy the value conditions)',
    ]
    if replay:
        loadcheck.write_models()
        rec = json.load(open(replay))
        errs, _ = check_case(rec['case'])
        for e in errs:
            print(e)
        return 1 if errs else 0
    cfg = 'MC_Require_q.cfg' if tier == 'quick' else 'MC_Require_t.cfg'
    stats, cases = loadcheck.tlc_cases(cfg, module='Require')
    loadcheck.add_stats(V, stats)
    for c in cases:
        for k in ('attr', 'attr_type', 'attr_value', 'attr_value_not'):
            if not isinstance(c[k], list):
                c[k] = []
    res = pool_map(_chunk, cases)
    for c, (errs, n) in zip(cases, res):
        V.replayed += 1
        V.evaluations += n
        if len(c['doc']['h']) >= 2:
            V.nontrivial.add(json.dumps([c['model'], c['doc']],
                                        sort_keys=True))
        for e in errs:
            if e.startswith('MACHINERY'):
                raise MachineryError(e)
            V.violation(c, e)
        if len(c['doc']['h']) == 3:
            V.sample({'model': c['model'], 'node': render.render(
                c['doc'], loadreplay.ctx()['implicit'])[0],
                'require_attribute': c['attr'],
                'require_attribute_value': c['attr_value'][:4]})
    V.exhaustive = True
    return V.finish(
        'every node within the occurrence bound for each class model x every '
        'helper x every attribute name / type of the model / scalar value; '
        'distinct = distinct (model, node) with at least 2 nodes')
